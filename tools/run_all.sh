#!/bin/bash
# usage: tools/run_all.sh [tier] — runs every registered check once, prints one line per check
tier=${1:-quick}
cd "$(dirname "$(dirname "$(realpath "$0")")")"
for p in C01 C02 C03 C04 C05 C06 C07 C08 C09 C10 C11 C12 C13 C14 C15 C16 C17 C18 C19 C20; do
  s=$(date +%s)
  out=$(/venv/bin/python check.py $p --tier $tier 2>&1)
  rc=$?
  e=$(date +%s)
  echo "$p rc=$rc $((e-s))s $(echo "$out" | grep -E "^C[0-9]+ tier" | cut -c1-160)"
  if [ $rc != 0 ]; then echo "$out" | grep -E "VIOLATION|HARNESS|bucket=" | cut -c1-300 | head -5; fi
done
