"""E4 - witness-directed selector generation: selectors are drawn *from the tree* so that they match,
nearly match, or walk one step too far.  Every random choice is a Hypothesis draw.
"""
from __future__ import annotations

import soupsieve  # noqa: F401
import bs4

from . import refmatch as R

OPS = ('=', '~=', '|=', '^=', '$=', '*=', '!=')
STRUCT = ('root', 'empty', 'first-child', 'last-child', 'only-child', 'first-of-type', 'last-of-type',
          'only-of-type')


class Cfg:
    def __init__(self, **kw):
        self.names = ('a', 'b', 'p', 'div', 'span')
        self.struct = STRUCT
        self.logical = ('not', 'is', 'where', 'matches', 'has')
        self.nth = False          # allow :nth-* pseudo-classes
        self.nth_of = False
        self.scope = False        # allow :scope / &
        self.flags = True
        self.case_vary = False    # vary case of names/values (C11)
        self.max_depth = 3
        self.max_parts = 4
        self.ns_forms = False     # handled by C12's own generator
        self.safe_ci = True       # i-flag / type values restricted to ASCII + uncased
        self.p_struct = 0.25
        self.p_nth = 0.25
        self.p_logical = 0.3
        self.p_attr = 0.35
        self.miss = 1.0           # scale of near-miss probabilities
        self.p_extend = 0.55
        self.__dict__.update(kw)


def _ascii_or_uncased(s):
    return all(ord(c) < 128 or (c.lower() == c.upper()) for c in s)


class Gen:
    def __init__(self, ch, doc, cfg, ctx=None):
        self.ch = ch
        self.doc = doc
        self.cfg = cfg
        self.elems = doc.all_elements()
        self.ctx = ctx or R.Ctx(doc.target)
        self.i = ch.i
        self.p = ch.p
        self.pick = ch.pick

    def swapcase(self, s):
        mode = self.i(0, 2)
        return s.upper() if mode == 0 else s.lower() if mode == 1 else s.swapcase()

    # -- pieces
    def near_name(self, name):
        r = self.i(0, 9)
        if r <= 2 and not self.p(self.cfg.miss):
            return name
        if r == 0:
            return self.pick(self.cfg.names)
        if r == 1 or (self.cfg.case_vary and r <= 4):
            return self.swapcase(name)
        if r == 2:
            return name + 'x'
        return name

    def perturb(self, s):
        r = self.i(0, 5)
        if r == 0:
            return s + 'x'
        if r == 1:
            return s[:-1]
        if r == 2:
            return ''
        if r == 3:
            return self.swapcase(s)
        if r == 4:
            return s + ' '
        return 'x' + s

    def attr_for(self, el, key, value):
        v = R.norm_value(value)
        op = self.pick(OPS + (None,))
        val = v
        if op == '~=':
            words = R.css_split(v)
            val = self.pick(words) if words else v
        elif op == '|=':
            val = v.split('-')[0] if self.p(0.7) else v
        elif op == '^=':
            val = v[:self.i(0, len(v))]
        elif op == '$=':
            val = v[self.i(0, len(v)):]
        elif op == '*=':
            a = self.i(0, len(v))
            b = self.i(a, len(v))
            val = v[a:b]
        if self.p(0.25 * self.cfg.miss):
            val = self.perturb(val)
        flag = None
        if op and self.cfg.flags:
            r = self.i(0, 9)
            flag = 'i' if r <= 1 else 's' if r == 2 else None
        name = str(key)
        if ':' in name or getattr(key, 'namespace', None) is not None:
            return None   # namespaced attributes and xmlns declarations are C12's business
        if self.cfg.safe_ci and (flag == 'i' or R.ascii_lower(name) == 'type') and not (
                _ascii_or_uncased(val) and _ascii_or_uncased(v)):
            flag = 's' if R.ascii_lower(name) == 'type' else None
        if self.p(0.1) or self.cfg.case_vary and self.p(0.3):
            name = self.swapcase(name)
        if flag and self.p(0.35):
            flag = flag.upper()
        return {'ns': None, 'name': name, 'op': op, 'val': val if op else '', 'flag': flag}

    def structural(self, el):
        cfg = self.cfg
        cands = list(cfg.struct)
        if not cands:
            return None
        if self.p(0.6):
            true = [n for n in cands if R.match_pseudo(self.ctx, el, {'p': n})]
            if true:
                return {'p': self.pick(true)}
        return {'p': self.pick(cands)}

    def nth_for(self, el):
        name = self.pick(('nth-child', 'nth-last-child', 'nth-of-type', 'nth-last-of-type'))
        a = self.i(-4, 4)
        b = self.i(-5, 8)
        if self.p(0.5):
            # aim at the element's real position
            sibs = R.elem_siblings(el)
            if 'of-type' in name:
                sibs = [s for s in sibs if R.same_type(self.ctx, s, el)]
            if 'last' in name:
                sibs = sibs[::-1]
            pos = [k for k, s in enumerate(sibs, 1) if s is el][0]
            n = self.i(0, 3)
            b = pos - a * n
        p = {'p': name, 'a': a, 'b': b, 'of': None}
        if self.cfg.nth_of and name in ('nth-child', 'nth-last-child') and self.p(0.35):
            other = self.pick(R.elem_siblings(el))
            p['of'] = [self.complex_for(other, 1, 1)] if self.p(0.5) else [self.complex_for(el, 1, 1)]
        return p

    def describe(self, el, depth, bare=False):
        cfg = self.cfg
        c = {'tag': None, 'ids': [], 'classes': [], 'attrs': [], 'ps': []}
        if self.p(0.5):
            c['tag'] = {'ns': None, 'name': self.near_name(el.name)}
        elif self.p(0.2):
            c['tag'] = {'ns': None, 'name': '*'}
        ident = R.el_id(self.ctx, el)
        if ident and self.p(0.4):
            c['ids'].append(self.perturb(ident) or ident if self.p(0.15 * cfg.miss) else ident)
        classes = [k for k in R.el_classes(self.ctx, el) if k]
        if classes and self.p(0.4):
            k = self.pick(classes)
            c['classes'].append((self.perturb(k) or k) if self.p(0.15 * cfg.miss) else k)
            if self.p(0.15):
                # the same class written twice in one compound (`.a.a`, the specificity idiom) means what `.a` means
                c['classes'].append(c['classes'][-1])
            elif len(classes) > 1 and self.p(0.3):
                c['classes'].append(self.pick(classes))
        for k, v in list(el.attrs.items()):
            if R.ascii_lower(str(k)) in ('id', 'class') and self.p(0.7):
                continue
            if self.p(cfg.p_attr):
                a = self.attr_for(el, k, v)
                if a:
                    c['attrs'].append(a)
        if self.p(0.08 * cfg.miss):
            c['attrs'].append({'ns': None, 'name': self.pick(('title', 'nope', 'data-x')), 'op': None, 'val': '',
                               'flag': None})
        if bare:
            return c
        if self.p(cfg.p_struct):
            s = self.structural(el)
            if s:
                c['ps'].append(s)
        if cfg.nth and self.p(cfg.p_nth):
            c['ps'].append(self.nth_for(el))
        if cfg.scope and self.p(0.1):
            c['ps'].append({'p': self.pick(('scope', 'amp'))})
        if depth > 0 and cfg.logical and self.p(cfg.p_logical):
            c['ps'].append(self.logical(el, depth - 1))
        return c

    def logical(self, el, depth):
        kind = self.pick(self.cfg.logical)
        if kind == 'has':
            return {'p': 'has', 'args': [self.relative_for(el, depth) for _ in range(self.i(1, 2))]}
        n = self.i(1, 2)
        args = []
        for _ in range(n):
            who = el if self.p(0.5) else self.pick(self.elems)
            args.append(self.complex_for(who, depth, 2))
        return {'p': kind, 'args': args}

    def relative_for(self, el, depth):
        """:has() argument: walk real forward relations from el (or one step too far)."""
        parts = []
        cur = el
        for _ in range(self.i(1, 2)):
            comb = self.pick((' ', '>', '+', '~'))
            cands = R.fwd_candidates(cur, comb)
            if cands and self.p(0.85):
                nxt = self.pick(cands)
            else:
                nxt = self.pick(self.elems)
            parts.append({'comb': comb if not (comb == ' ' and self.p(0.5) and not parts) else None,
                          'c': self.describe(nxt, depth)})
            cur = nxt
        return parts

    def complex_for(self, el, depth, max_parts=None):
        max_parts = max_parts or self.cfg.max_parts
        parts = [{'comb': None, 'c': self.describe(el, depth)}]
        cur = el
        while len(parts) < max_parts and self.p(self.cfg.p_extend):
            comb = self.pick((' ', '>', '+', '~'))
            cands = R.back_candidates(cur, comb)
            if cands and self.p(0.85):
                prev = self.pick(cands)
            elif self.p(0.5):
                prev = self.pick(self.elems)   # unrelated splice / one step too far
            else:
                break
            parts[0]['comb'] = comb
            parts.insert(0, {'comb': None, 'c': self.describe(prev, depth)})
            cur = prev
        return parts

    def selector_list(self):
        n = 1 if self.p(0.75) else self.i(2, 3)
        return [self.complex_for(self.pick(self.elems), self.cfg.max_depth) for _ in range(n)]
