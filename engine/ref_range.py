"""Reference model for :in-range / :out-of-range (C18): HTML date/time/number microsyntaxes with an
independent proleptic-Gregorian calendar (400-year cycle mapped into the range `calendar`/`datetime` support).
"""
from __future__ import annotations

import calendar
import datetime

RANGE_TYPES = ('date', 'month', 'week', 'time', 'datetime-local', 'number', 'range')
DIGITS = '0123456789'


def _digits(s, lo, hi=None):
    return len(s) >= lo and (hi is None or len(s) <= hi) and all(c in DIGITS for c in s)


def to_int(digits):
    """int() of a digit string of any length (Python refuses more than ~4300 digits in one conversion)."""
    v = 0
    for i in range(0, len(digits), 3000):
        c = digits[i:i + 3000]
        v = v * 10 ** len(c) + int(c)
    return v


def cycle_year(y):
    return 2001 + (y - 1) % 400


def days_in_month(y, m):
    return calendar.monthrange(cycle_year(y), m)[1]


def weeks_in_year(y, model=None):
    """ISO-8601: a year has 53 weeks iff 28 December lies in week 53."""
    y0 = cycle_year(y)
    true = datetime.date(y0, 12, 28).isocalendar()[1]
    if model == 'week53-dec31-in-week1':
        # defect model: 53 whenever 31 December is in ISO week 1 (of the next year), else the week of 31 December
        w = datetime.date(y0, 12, 31).isocalendar()[1]
        return 53 if w == 1 else w
    return true


def parse_date(s):
    parts = s.split('-')
    if len(parts) != 3 or not _digits(parts[0], 4) or not _digits(parts[1], 2, 2) or not _digits(parts[2], 2, 2):
        return None
    y, m, d = to_int(parts[0]), int(parts[1]), int(parts[2])
    if y < 1 or not 1 <= m <= 12 or not 1 <= d <= days_in_month(y, m):
        return None
    return (y, m, d)


def parse_month(s):
    parts = s.split('-')
    if len(parts) != 2 or not _digits(parts[0], 4) or not _digits(parts[1], 2, 2):
        return None
    y, m = to_int(parts[0]), int(parts[1])
    if y < 1 or not 1 <= m <= 12:
        return None
    return (y, m)


def parse_week(s, model=None):
    parts = s.split('-W')
    if len(parts) != 2 or not _digits(parts[0], 4) or not _digits(parts[1], 2, 2):
        return None
    y, w = to_int(parts[0]), int(parts[1])
    if y < 1 or not 1 <= w <= weeks_in_year(y, model):
        return None
    return (y, w)


def parse_time(s):
    parts = s.split(':')
    if len(parts) != 2 or not _digits(parts[0], 2, 2) or not _digits(parts[1], 2, 2):
        return None
    h, m = int(parts[0]), int(parts[1])
    if not 0 <= h <= 23 or not 0 <= m <= 59:
        return None
    return (h, m)


def parse_datetime(s):
    parts = s.split('T')
    if len(parts) != 2:
        return None
    d, t = parse_date(parts[0]), parse_time(parts[1])
    if d is None or t is None:
        return None
    return d + t


def parse_number(s):
    body = s[1:] if s.startswith('-') else s
    if '.' in body:
        a, _, b = body.partition('.')
        if not _digits(b, 1) or (a and not _digits(a, 1)):
            return None
    elif not _digits(body, 1):
        return None
    return (float(s),)


def parse(itype, s, model=None):
    if s is None:
        return None
    if itype == 'date':
        return parse_date(s)
    if itype == 'month':
        return parse_month(s)
    if itype == 'week':
        return parse_week(s, model)
    if itype == 'time':
        return parse_time(s)
    if itype == 'datetime-local':
        return parse_datetime(s)
    if itype in ('number', 'range'):
        return parse_number(s)
    return None


def has_exponent(s):
    return s is not None and ('e' in s or 'E' in s)


def classify(itype, mn, mx, val, model=None):
    """Return 'in', 'out' or 'neither' for <input type=itype min=mn max=mx value=val> (strings or None)."""
    t = itype.lower() if itype is not None else ''
    t = ''.join(chr(ord(c) + 32) if 'A' <= c <= 'Z' else c for c in (itype or ''))
    if t not in RANGE_TYPES or (mn is None and mx is None):
        return 'neither'
    pmn, pmx = parse(t, mn, model), parse(t, mx, model)
    if pmn is None and pmx is None:
        return 'neither'
    v = parse(t, val, model)
    if v is None:
        return 'in'
    if t == 'time' and pmn is not None and pmx is not None and pmn > pmx:
        return 'out' if pmx < v < pmn else 'in'
    if pmn is not None and v < pmn:
        return 'out'
    if pmx is not None and v > pmx:
        return 'out'
    return 'in'
