"""Reference model for :lang(): RFC 4647 extended filtering + the element's language (C13)."""
from __future__ import annotations

import soupsieve  # noqa: F401
import bs4

from . import refmatch as R


def ext_filter(rng, tag):
    """RFC 4647 section 3.3.2 on well-formed, non-empty range and tag."""
    r = R.ascii_lower(rng).split('-')
    t = R.ascii_lower(tag).split('-')
    if r[0] != '*' and r[0] != t[0]:
        return False
    ri, ti = 1, 1
    while ri < len(r):
        if r[ri] == '*':
            ri += 1
            continue
        if ti >= len(t):
            return False
        if r[ri] == t[ti]:
            ri += 1
            ti += 1
            continue
        if len(t[ti]) == 1:
            return False
        ti += 1
    return True


def lang_matches(ranges, language):
    """CSS :lang(): language None = unknown, '' = explicitly empty."""
    if language is None:
        return False
    for rng in ranges:
        if rng == '':
            if language == '':
                return True
            continue
        if language == '':
            continue
        if ext_filter(rng, language):
            return True
    return False


def element_language(ctx, el):
    """Nearest lang / xml:lang on self or ancestors within the same document, else the <meta> pragma, else None."""
    cur = el
    top = None
    crossed_iframe = False
    while cur is not None and R.is_elem(cur):
        html_el = (cur.namespace == R.NS_XHTML)
        for k, v in cur.attrs.items():
            if (not ctx.ns_aware or html_el):
                if ((k == 'lang') if ctx.is_xml else (R.ascii_lower(str(k)) == 'lang')) and getattr(k, 'namespace', None) in (None,):
                    return R.norm_value(v)
            elif getattr(k, 'namespace', None) == R.NS_XML and getattr(k, 'name', None) == 'lang':
                return R.norm_value(v)
        top = cur
        parent = cur.parent
        if ctx.is_html and parent is not None and R.is_iframe(ctx, parent):
            crossed_iframe = True
            break
        cur = parent
    if crossed_iframe:
        return None
    # <meta http-equiv="content-language" content="..."> in html > head of an HTML (not XML) document
    if ctx.is_xml or not ctx.has_doc:
        return None
    for html in ctx.top.contents:
        if isinstance(html, bs4.Tag) and ctx.fold_name(html.name) == 'html' and ctx.is_html_el(html):
            for head in html.contents:
                if isinstance(head, bs4.Tag) and ctx.fold_name(head.name) == 'head' and ctx.is_html_el(head):
                    for meta in head.contents:
                        if isinstance(meta, bs4.Tag) and ctx.fold_name(meta.name) == 'meta':
                            he = content = None
                            for k, v in meta.attrs.items():
                                lk = R.ascii_lower(str(k))
                                if lk == 'http-equiv':
                                    he = R.norm_value(v)
                                elif lk == 'content':
                                    content = R.norm_value(v)
                            if he is not None and R.ascii_lower(he) == 'content-language' and content:
                                return content
                    return None
            return None
    return None


def match_lang(ctx, el, p):
    return lang_matches(p['vals'], element_language(ctx, el))


R.EXT['lang'] = match_lang
