#!/bin/bash
# usage: tools/patch_mutant.sh <patch.diff> [--suite] -- <check args...>
# Applies a patch to a scratch worktree of /repo, optionally runs the repo test-suite there, runs ./check.py
# against it (VERIF_REPO), and removes the worktree.
set -u
patch="$(realpath "$1")"; shift
suite=0; if [ "$1" = "--suite" ]; then suite=1; shift; fi
[ "$1" = "--" ] && shift
d=$(mktemp -d /tmp/mut.XXXXXX)
git -C /repo worktree add -q --detach "$d" HEAD || exit 2
( cd "$d" && git apply "$patch" ) || { echo "patch failed"; git -C /repo worktree remove --force "$d"; exit 2; }
if [ $suite = 1 ]; then ( cd "$d" && /venv/bin/python -m pytest -q -p no:cacheprovider -n 8 2>&1 | tail -1 ); fi
VERIF_REPO="$d" VERIF_NO_EVIDENCE=1 /verif/check.py "$@"
rc=$?
git -C /repo worktree remove --force "$d"
rm -rf "$d"
exit $rc
