"""C13 - :lang() is RFC 4647 extended filtering over the inherited language."""
from __future__ import annotations

import itertools
import time

import soupsieve as sv
from bs4 import BeautifulSoup

from engine import choose, common, ref_lang as L, refmatch as R, selast as S, trees

ID = 'C13'
BUDGET = {'quick': 55, 'thorough': 1200}
META = {
    'rule': '(a) filter: ranges over subtags {*, de, en, x, a, latn, DE, 1996, ch} and tags over the same alphabet '
            'without *, 1-4 subtags each plus the empty string (34.5 M pairs; thorough: all, quick: a stride), each '
            'evaluated through the public API (one document holding every tag as the lang of one element, one '
            'select(:lang("range")) per range) plus random alphanumeric subtags and multi-range lists; '
            '(b) language determination: generated HTML/XHTML/XML documents with lang / xml:lang at drawn depths '
            '(including lang="" below a non-empty one), <meta http-equiv=content-language> variants, and iframes. '
            'Oracle: own RFC 4647 3.3.2 implementation + CSS rules for the empty range and "*", and an independent '
            'reference for the element\'s language. Non-trivial: (a) the pair is decided by a wildcard, a singleton or '
            'a length mismatch, not by the first subtag alone; (b) the language comes from an ancestor, the meta pragma, '
            'is explicitly empty, or is cut by an iframe; distinct by pair / (recipe, range)',
    'assumptions': ['ranges and tags are well-formed (non-empty subtags)',
                    'XHTML documents with a meta pragma, a pragma inside iframe content or in a detached fragment are not judged (the statement leaves them open)'],
}

SUBTAGS = ('*', 'de', 'en', 'x', 'a', 'latn', 'DE', '1996', 'ch')
# the last five end in an empty subtag (possibly followed by wildcards): an empty subtag equals no subtag of a tag
RANGE_PROBES = ('', '*', 'en', 'de', 'de-*', '*-DE', 'de-DE', 'x', 'en-US', 'fr', 'DE-de', '*-*', 'de-*-DE',
                'de-', 'en-', 'de--*', '*-', '-')


def all_seqs(alphabet, maxlen):
    for n in range(1, maxlen + 1):
        for t in itertools.product(alphabet, repeat=n):
            yield '-'.join(t)


def build_tag_doc(tags):
    soup = BeautifulSoup('', 'html.parser')
    root = soup.new_tag('div')
    soup.append(root)
    els = []
    for t in tags:
        e = soup.new_tag('p', attrs={'lang': t})
        root.append(e)
        els.append(e)
    nol = soup.new_tag('p')
    root.append(nol)
    return soup, els, nol


def nontrivial_pair(rng, tag):
    r, t = rng.lower().split('-'), tag.lower().split('-')
    return '*' in r or len(r) != len(t) or any(len(x) == 1 for x in t[1:]) or rng == '' or tag == ''


def run_filter_box(col, ctx):
    tier = ctx['tier']
    tags = [''] + list(all_seqs([s for s in SUBTAGS if s != '*'], 4))
    ranges = [''] + list(all_seqs(SUBTAGS, 4))
    soup, els, nol = build_tag_doc(tags)
    idx = {id(e): i for i, e in enumerate(els)}
    stride = 1 if tier == 'thorough' else 6
    k, nsh = ctx['shard'], ctx['nshards']
    done = 0
    complete = True
    for ri in range(k * stride, len(ranges), nsh * stride):
        if time.time() > ctx['t_end']:
            col.extra['budget_exhausted'] = 1
            complete = False
            break
        rng = ranges[ri]
        text = ':lang(' + S.cssstring(rng) + ')'
        try:
            got = sv.select(text, soup)
        except Exception as e:  # noqa: BLE001
            col.fail('raises-' + type(e).__name__, {'range': rng, 'tags': ['de']}, f'{text!r}: {e!r:.200}')
            continue
        gotset = {idx.get(id(x), -1) for x in got}
        col.count(len(tags))
        nt = 0
        for i, t in enumerate(tags):
            exp = L.lang_matches([rng], t)
            if (i in gotset) != exp:
                col.fail('filter-accepts' if i in gotset else 'filter-rejects', {'range': rng, 'tags': [t]},
                         f'range {rng!r} vs language {t!r}: soupsieve {i in gotset}, RFC 4647 {exp}')
            if nontrivial_pair(rng, t):
                nt += 1
        if -1 in gotset:
            col.fail('unknown-language-matches', {'range': rng, 'tags': []}, f'{text!r} matched an element without any language')
        col.extra['nontrivial_pairs'] = col.extra.get('nontrivial_pairs', 0) + nt
        col.nontrivial_case(['range', rng], {'range': rng, 'tags_matched': len(gotset), 'of': len(tags)} if done % 40 == 0 else None)
        done += 1
    col.extra['filter_ranges_done'] = done
    col.extra['filter_box_complete'] = int(complete and stride == 1)


# ------------------------------------------------------------------ (b) language determination

LANGS = ('en', 'de', 'de-DE', '', 'en-US', 'fr', 'x-a')


def gen_doc(ch):
    flavour = ch.pick(('html.parser', 'lxml', 'html5lib', 'html-api', 'xhtml', 'lxml-xml', 'xml-api'))
    xmlish = flavour in ('lxml-xml', 'xml-api')
    ns = trees.NS_XHTML if flavour == 'xhtml' else None

    def lang_attr(prob=0.3):
        out = []
        if ch.p(prob):
            if xmlish and ch.p(0.8):
                out.append([trees.NS_XML, 'xml', 'lang', ch.pick(LANGS)])
            elif flavour == 'xhtml' and ch.p(0.2):
                out.append([trees.NS_XML, 'xml', 'lang', ch.pick(LANGS)])
            else:
                out.append([None, None, ch.pick(('lang', 'lang', 'lang', 'LANG')) if not (xmlish or flavour == 'xhtml') else 'lang',
                            ch.pick(LANGS)])
        return out

    def block(depth, allow_iframe=True):
        kids = []
        for _ in range(ch.i(1, 3)):
            r = ch.i(0, 9)
            if r == 0 and allow_iframe and depth > 0 and not xmlish and flavour != 'xhtml':
                inner = trees.E('html', lang_attr(0.3), [trees.E('body', lang_attr(0.2), block(depth - 1, False), ns=ns)], ns=ns)
                kids.append(trees.E('iframe', lang_attr(0.2), [inner] if ch.p(0.8) else block(depth - 1, False), ns=ns))
            elif r == 1 and flavour in ('html5lib', 'xhtml'):
                sns = trees.NS_SVG if ns else None
                kids.append(trees.E('svg', lang_attr(0.5), [trees.E('circle', [[trees.NS_XML, 'xml', 'lang', 'de']] if ch.p(0.3) and ns else [], ns=sns)], ns=sns))
            elif depth > 0:
                kids.append(trees.E(ch.pick(('div', 'p', 'span')), lang_attr(), block(depth - 1, allow_iframe) if ch.p(0.7) else [], ns=ns))
            else:
                kids.append(trees.E('span', lang_attr(), [trees.T('x')], ns=ns))
        return kids

    head = []
    if not xmlish and flavour != 'xhtml' and ch.p(0.6):
        for _ in range(ch.i(1, 3)):
            attrs = []
            if ch.p(0.85):
                attrs.append([None, None, ch.pick(('http-equiv', 'HTTP-EQUIV')) if flavour == 'html-api' else 'http-equiv',
                              ch.pick(('content-language', 'Content-Language', 'refresh', 'CONTENT-LANGUAGE'))])
            if ch.p(0.85):
                attrs.append([None, None, 'content', ch.pick(('fr', 'de-DE', '', 'en'))])
            if ch.p(0.5):
                attrs.reverse()
            head.append(trees.E('meta', attrs, [], ns=ns))
        if ch.p(0.5):
            head.insert(ch.i(0, len(head)), trees.E('title', {}, [trees.T('t')], ns=ns))
    body = block(2 if ch.p(0.7) else 3)
    if ch.p(0.15) and head and flavour == 'html-api':
        body.append(head.pop())      # a meta outside head must not count
    root_name = 'html' if not xmlish or ch.p(0.5) else 'root'
    top = [trees.E(root_name, lang_attr(0.25), [trees.E('head', {}, head, ns=ns), trees.E('body', lang_attr(0.15), body, ns=ns)], ns=ns)]
    kind = 'lxml-xml' if flavour == 'xhtml' else flavour
    return {'kind': kind, 'top': top, 'detach': None}, flavour


def source_of(ctx, el):
    """Where the language comes from (for the non-trivial classification)."""
    lang = L.element_language(ctx, el)
    own = None
    for k, v in el.attrs.items():
        if R.ascii_lower(str(k)) in ('lang', 'xml:lang'):
            own = v
    if lang is None:
        return 'unknown'
    if lang == '':
        return 'explicit-empty'
    if own is not None and own == lang:
        return 'own'
    return 'inherited-or-meta'


def selector_for(rng):
    """(selector text, predicate on the element language) for a range item: one range, a list of ranges (one :lang()
    with several arguments: any), or {'chain': [list, list, ...]} (several :lang() on one compound: all of them)."""
    if isinstance(rng, dict):
        groups = rng['chain']
        text = ''.join(':lang(' + ', '.join(S.cssstring(v) for v in g) + ')' for g in groups)
        return text, lambda language: all(L.lang_matches(g, language) for g in groups)
    vals = rng if isinstance(rng, list) else [rng]
    return ':lang(' + ', '.join(S.cssstring(v) for v in vals) + ')', lambda language: L.lang_matches(vals, language)


def evaluate_doc(case):
    doc = trees.materialise(case['tree'])
    ctx = R.Ctx(doc.target)
    els = doc.elements()
    fails = []
    kinds = set()
    n = 0
    for rng in case['ranges']:
        text, pred = selector_for(rng)
        exp = [e for e in els if pred(L.element_language(ctx, e))]
        try:
            got = sv.select(text, doc.target)
        except Exception as e:  # noqa: BLE001
            fails.append(('raises-' + type(e).__name__, f'{text!r}: {e!r:.200}'))
            continue
        n += 1
        if [id(x) for x in got] != [id(x) for x in exp]:
            o = {id(e): i for i, e in enumerate(els)}
            bad = [e for e in els if (id(e) in {id(x) for x in got}) != (id(e) in {id(x) for x in exp})]
            why = source_of(ctx, bad[0]) if bad else '?'
            fails.append((f'language-determination-{why}',
                          f'{text!r} on {case["flavour"]} document {str(doc.target)[:500]!r}: soupsieve '
                          f'{[o.get(id(x)) for x in got]} reference {[o.get(id(x)) for x in exp]}; first differing '
                          f'element <{bad[0].name if bad else "?"}> has reference language '
                          f'{L.element_language(ctx, bad[0]) if bad else None!r}'))
    for e in els:
        kinds.add(source_of(ctx, e))
    # the program edits the pragma (or a lang attribute) and asks again: the answer is that of the document as it is now
    metas = [e for e in els if e.name == 'meta' and e.get('content') is not None]
    edited = False
    if metas and not fails:
        metas[0]['content'] = 'zz-Edit' if metas[0]['content'] != 'zz-Edit' else 'yy'
        edited = True
    elif els and not fails and case['ranges']:
        els[0]['lang'] = 'zz-Edit'
        edited = True
    if edited:
        ctx2 = R.Ctx(doc.target)
        for rng in (['zz-*'], ['*'], case['ranges'][0]):
            text, pred = selector_for(rng)
            exp = [e for e in els if pred(L.element_language(ctx2, e))]
            try:
                got = sv.select(text, doc.target)
            except Exception as e:  # noqa: BLE001
                fails.append(('raises-' + type(e).__name__, f'{text!r} after an edit: {e!r:.200}'))
                continue
            n += 1
            if [id(x) for x in got] != [id(x) for x in exp]:
                o = {id(e): i for i, e in enumerate(els)}
                fails.append(('language-after-document-edit',
                              f'{text!r} after the pragma content / a lang attribute of the {case["flavour"]} document was changed '
                              f'to {str(doc.target)[:300]!r}: soupsieve {[o.get(id(x)) for x in got]} reference {[o.get(id(x)) for x in exp]}'))
                break
    return fails, kinds, n


def evaluate_pair(case):
    soup, els, nol = build_tag_doc(case['tags'])
    rng = case['range']
    text, pred = selector_for(rng)
    got = {id(x) for x in sv.select(text, soup)}
    for e, t in zip(els, case['tags']):
        exp = pred(t)
        if (id(e) in got) != exp:
            return [('filter-accepts' if id(e) in got else 'filter-rejects',
                     f'range {rng!r} vs language {t!r}: soupsieve {id(e) in got}, RFC 4647 {exp}')]
    if id(nol) in got:
        return [('unknown-language-matches', f'{text!r} matched an element without any language')]
    return []


def replay(case):
    fails = evaluate_pair(case) if 'tags' in case else evaluate_doc(case)[0]
    return fails[0] if fails else None


def rand_subtag(ch):
    if ch.p(0.15):
        return '*'
    n = ch.pick((1, 2, 2, 3, 4, 8))
    return ''.join(ch.pick('abcdxyzABC0123456789') for _ in range(n))


def shard(ctx):
    col = common.Collector()
    tier = ctx['tier']
    t_rand_end = time.time() + ctx['budget_s'] * 0.45

    def body(ch):
        if ch.p(0.3):
            # random filter pairs, incl. multi-range lists
            ranges = ['-'.join(rand_subtag(ch) for _ in range(ch.i(1, 6))) for _ in range(ch.i(1, 3))]
            if ch.p(0.15):
                # a dangling dash (an empty last subtag), possibly followed by wildcards
                k_ = ch.i(0, len(ranges) - 1)
                ranges[k_] = ranges[k_] + ch.pick(('-', '--*', '-*-', '--'))
            base = ranges[0].replace('*', 'zz').split('-')
            tags = []
            for _ in range(6):
                t = list(base)
                for _ in range(ch.i(0, 3)):
                    r = ch.i(0, 3)
                    pos = ch.i(0, len(t))
                    if r == 0:
                        t.insert(pos, ch.pick(('x', 'a', 'latn', '1996', 'q')))
                    elif r == 1 and len(t) > 1:
                        del t[min(pos, len(t) - 1)]
                    elif r == 2 and t:
                        t[min(pos, len(t) - 1)] = rand_subtag(ch).replace('*', 'w')
                    else:
                        t = [s.upper() for s in t]
                tags.append('-'.join(s for s in t if s) or 'x')
            if ch.p(0.1):
                tags.append('')
            if ch.p(0.1):
                ranges.append('')
            if len(ranges) > 1 and ch.p(0.35):
                # the same ranges as separate :lang() pseudo-classes on one compound: every one of them must hold
                cut = ch.i(1, len(ranges) - 1)
                ranges = {'chain': [ranges[:cut], ranges[cut:]]}
            case = {'range': ranges, 'tags': tags}
            fails = evaluate_pair(case)
            col.count(len(tags))
            col.classify('random-filter-pairs')
            col.nontrivial_case(['pair', ranges, tags], {'ranges': ranges, 'tags': tags})
            for b, d in fails[:2]:
                col.fail(b, case, d)
            return
        recipe, flavour = gen_doc(ch)
        ranges = [ch.pick(RANGE_PROBES) for _ in range(3)] + [[ch.pick(RANGE_PROBES), ch.pick(RANGE_PROBES)]]
        ranges.append({'chain': [[ch.pick(RANGE_PROBES)] for _ in range(ch.i(2, 3))]})
        case = {'tree': recipe, 'flavour': flavour, 'ranges': ranges}
        fails, kinds, n = evaluate_doc(case)
        col.count(n)
        col.classify('doc:' + flavour)
        for kd in kinds:
            col.classify('language:' + kd)
        if kinds & {'inherited-or-meta', 'explicit-empty'}:
            col.nontrivial_case([recipe, ranges], {'doc': flavour, 'ranges': ranges, 'markup': trees.markup(recipe)[:400],
                                                   'language-sources': sorted(kinds)})
        for b, d in fails[:2]:
            col.fail(b, case, d)

    ex = common.hyp_run(choose.choices(3072), body, 60000 if tier == 'quick' else 4000000, ctx['hseed'],
                        deadline_ts=t_rand_end)
    col.extra['random_budget_exhausted'] = int(ex)
    run_filter_box(col, ctx)
    return col


def evidence_extra(merged):
    return {'exhaustive': merged['extra'].get('filter_box_complete', 0) == len(merged.get('shard_wall', []))}


def selftest():
    # examples from RFC 4647 section 3.3.2 and Selectors 4 section 7.2
    for rng, tag, want in [('de-*-DE', 'de-DE', True), ('de-*-DE', 'de-de', True), ('de-*-DE', 'de-Latn-DE', True),
                           ('de-*-DE', 'de-Latf-DE', True), ('de-*-DE', 'de-DE-x-goethe', True),
                           ('de-*-DE', 'de-Latn-DE-1996', True), ('de-*-DE', 'de-Deva-DE', True),
                           ('de-*-DE', 'de', False), ('de-*-DE', 'de-x-DE', False), ('de-*-DE', 'de-Deva', False),
                           ('de-DE', 'de-Latn-DE', True), ('*-DE', 'fr-DE', True), ('de-*', 'de', True),
                           ('*', 'en', True), ('en', 'en-US', True), ('en-US', 'en', False), ('fr', 'fr-CH', True),
                           ('*-CH', 'fr-CH', True), ('*-CH', 'de-Latn-CH', True), ('de', 'den', False)]:
        if L.ext_filter(rng, tag) != want:
            raise common.HarnessError(f'RFC 4647 self-test: {rng} vs {tag} != {want}')
    if L.lang_matches([''], 'en') or not L.lang_matches([''], '') or L.lang_matches(['*'], '') or L.lang_matches(['*'], None):
        raise common.HarnessError('CSS empty-range rules self-test')
