"""C14 - concurrent compilation and matching behave as if run one at a time (deterministic scheduler)."""
from __future__ import annotations

import json
import os
import subprocess
import sys
import time
import warnings

import soupsieve as sv

from engine import choose, common, htmldoc, sched, trees

ID = 'C14'
BUDGET = {'quick': 80, 'thorough': 1200}
META = {
    'rule': 'real threads under a deterministic scheduler (engine/sched.py): every line event (thorough: every opcode '
            'in css_parser.py) inside soupsieve frames is a yield point; exactly one thread runs at a time, so a run is '
            'a pure function of (operations, schedule). Schedules: (i) exhaustive single pre-emption for every ordered '
            'pair of compile operations from a pattern pool that exercises every token class and each special '
            'functional pseudo-class - thread A is stopped at each of its yield points, thread B runs to completion, A '
            'resumes; (ii) Hypothesis-drawn cyclic burst schedules and PCT priority schedules with <= 3 change points '
            'over 2-4 threads and mixed compile/purge/select/match/filter/closest operations on shared and private '
            'documents, including operations at the interpreter\'s limits (a 4400-digit An+B coefficient that must be a '
            'syntax error, range matching on 4400-digit years), for which all single pre-emptions are enumerated too, and '
            'operations that are guaranteed to miss soupsieve\'s memos (a never-seen attribute name) while the memo of '
            'lower-cased names is filled to capacity by a warm-up, enumerated at opcode granularity inside util.py; (iii) '
            'first use in a process: for 20 pseudo-classes, single pre-emptions of two selects run as the first thing a fresh '
            'interpreter does with the library (fuzz/c14_fresh.py), compared with what each gives alone afterwards. Oracle: every operation\'s outcome (selector structure / selected positions / exception type) '
            'equals its outcome when run alone on a purged cache; afterwards every pattern\'s cached entry equals a '
            'fresh parse (or the same error), the cache is within its bound and the interpreter-wide int-digit and recursion limits are what they were. Non-trivial: >= 1 context switch happened at a yield point '
            'inside soupsieve while another thread still had soupsieve work to do; distinct by (operations, schedule)',
    'assumptions': ['only interleavings at traced boundaries inside soupsieve\'s Python frames are explored; C-level '
                    'atomicity of lru_cache and re is trusted', '>= 2 pre-emptions are sampled, not exhausted'],
}

NS = {'svg': trees.NS_SVG}
CUSTOM = {':--c': ':checked, a:lang(en)'}
POOL_QUICK = [':nth-child(2n+1)', ':lang(en)', ':nth-of-type(odd)', ':-soup-contains("a")', ':dir(rtl)', 'a > b, c',
              ':is(a, :not(b)):--c']
POOL_MORE = [':nth-last-child(-n+3 of li)', ':lang("de-*", fr)', ':-soup-contains-own(x, y)', 'svg|circle[r="5" i]',
             ':nth-last-of-type(2)', ':has(> a + b)', ':not(:dir(ltr))', '#i1.k[title~=abc]', ':where(:nth-child(even))',
             'p:first-child ~ p:lang(en)', ':checked, :default', ':root:empty', '\\31 a', ':dir(ltr):nth-child(3)']
DETACHED_SELECTORS = ['div:first-child', 'div:nth-child(1)', ':only-child', 'div:last-of-type', ':nth-last-child(-n+1)',
                      ':root:nth-of-type(1)']
# operations at the interpreter's limits: they are where a library is tempted to touch process-wide settings
HUGE_NTH = ':nth-child(' + '1' * 4400 + 'n)'          # alone: SelectorSyntaxError (int() digit limit)
HUGE_YEAR = '1' * 4400
LIMIT_MARKUP = ('<form><input id="a" type="month" min="' + HUGE_YEAR + '-01" value="' + HUGE_YEAR + '-05">'
                '<input id="b" type="date" max="' + HUGE_YEAR + '-01-01" value="' + HUGE_YEAR + '9-01-01">'
                '<input id="c" type="week" min="2000-W01" value="' + HUGE_YEAR + '-W02"></form>')
LIMIT_SELECTORS = [':in-range', ':out-of-range', 'input:not(:in-range)']
# memo at capacity: soupsieve memoises lower-cased names (512 entries, never purged); eviction only happens when the memo
# is full, so a warm-up through the public API fills it before operations that are guaranteed to miss it
DEEP = 135          # nesting depth of the deep-compile pair (the interpreter's recursion limit leaves room for ~190 under the tracer)
WARM_N = 560
_warm = [False]
_fresh = [0]
_doc = [None]


def witness():
    if _doc[0] is None:
        _doc[0] = trees.materialise(htmldoc.WITNESS_RECIPE)
    return _doc[0]


def warm_up():
    """Fill the pattern cache and the name memo to capacity (once per process; public API only)."""
    if not _warm[0]:
        for i in range(WARM_N):
            sv.compile(f'[ZZ-FILL-{i}]')
        _warm[0] = True


def fresh_name():
    _fresh[0] += 1
    return f'QQ-{os.getpid()}-{_fresh[0]}'


_small = [None]


def small_doc():
    if _small[0] is None:
        import bs4 as _bs4
        _small[0] = _bs4.BeautifulSoup('<div id="0"><a id="1" href="u">x</a><p id="2" class="k">y</p></div>', 'html.parser')
    return _small[0]


def compile_(p):
    with warnings.catch_warnings():
        warnings.simplefilter('ignore')
        return sv.compile(p, NS, custom=CUSTOM)


def make_op(op, private_docs):
    kind = op['op']
    p = op.get('p')
    if kind == 'compile':
        def f():
            if op.get('purge', True):
                sv.purge()
            return ('selectors', compile_(p).selectors)
        return f
    if kind == 'compile-outcome':
        # for very deep patterns: only whether it compiles (comparing 135-deep structures would itself exhaust the stack)
        def g():
            if op.get('purge', True):
                sv.purge()
            compile_(p)
            return ('compiled', True)
        return g
    if kind == 'purge':
        return lambda: ('purged', sv.purge())
    if kind == 'select-lang-fresh':
        # a language range no call in this process has evaluated before (the same one in every thread of the run); the
        # document carries it as a tag, so the answer is known without asking the library first
        import bs4 as _bs4
        tok = op['_tok']
        soup = _bs4.BeautifulSoup(f'<div><p id="1" lang="en-{tok}">x</p><p id="2" lang="de">y</p><p id="3" lang="EN-{tok}-x">z</p></div>', 'html.parser')
        return lambda: ('select-lang-fresh', [e.get('id') for e in sv.select(f'p:lang(en-{tok})', soup)])
    if kind == 'select-ns':
        # the same selector text under the caller's own prefix map (threads use different maps)
        import bs4 as _bs4
        xml = _bs4.BeautifulSoup('<r xmlns:a="urn:one" xmlns:b="urn:two"><a:item id="1"/><b:item id="2"/><a:item id="3"/><item id="4"/></r>', 'xml')
        nsmap = dict(op['map'])
        return lambda: ('select-ns', [e.get('id') for e in sv.select(p, xml, namespaces=nsmap)])
    if kind == 'select-fresh':
        # an attribute name never seen in this process: a guaranteed miss in every name/pattern memo.  The answer does
        # not depend on the name (no element carries it), so it is comparable between runs.
        text = p.replace('{fresh}', fresh_name())
        soup = small_doc()
        return lambda: ('select-fresh', [x.get('id') for x in sv.select(text, soup)])
    if kind == 'select-limits':
        import bs4 as _bs4
        soup = _bs4.BeautifulSoup(LIMIT_MARKUP, 'html.parser')
        return lambda: ('select-limits', [e.get('id') for e in sv.select(p, soup)])
    if kind == 'match-detached':
        import bs4 as _bs4
        frag = _bs4.BeautifulSoup('', 'html.parser').new_tag('div', attrs={'id': f't{op["tid"]}'})
        frag.append(_bs4.BeautifulSoup('', 'html.parser').new_tag('p'))
        return lambda: ('match-detached', sv.match(p, frag, NS, custom=CUSTOM))
    doc = witness() if op.get('doc', 'shared') == 'shared' else private_docs[op['tid']]
    els = doc.all_elements()
    target = doc.target if op.get('target', -1) < 0 else els[op['target'] % len(els)]
    order = {id(e): i for i, e in enumerate(els)}

    def pos(r):
        if r is None or isinstance(r, bool):
            return r
        if not isinstance(r, list):
            return order.get(id(r), -1)
        return [order.get(id(x), -1) for x in r]
    if kind == 'select':
        return lambda: ('select', pos(sv.select(p, target, NS, custom=CUSTOM)))
    if kind == 'match':
        return lambda: ('match', pos(sv.match(p, target, NS, custom=CUSTOM)))
    if kind == 'filter':
        return lambda: ('filter', pos(sv.filter(p, target, NS, custom=CUSTOM)))
    if kind == 'closest':
        return lambda: ('closest', pos(sv.closest(p, target, NS, custom=CUSTOM)))
    raise ValueError(kind)


def interpreter_settings():
    return (sys.get_int_max_str_digits(), sys.getrecursionlimit())


def solo(op, private_docs):
    sv.purge()
    try:
        with warnings.catch_warnings():
            warnings.simplefilter('ignore')
            return ('ok', make_op(op, private_docs)())
    except Exception as e:  # noqa: BLE001
        return ('raise', type(e).__name__)


def run_case(case, opcode=False):
    """Return (fails, stats). case: {'threads': [[op...]...], 'schedule': {...}}"""
    nthreads = len(case['threads'])
    private = [trees.materialise(htmldoc.WITNESS_RECIPE) if any(o.get('doc') == 'private' for o in ops) else None
               for ops in case['threads']]
    for tid, ops in enumerate(case['threads']):
        for o in ops:
            o['tid'] = tid
    tok = fresh_name().replace('-', '').lower()
    for ops in case['threads']:
        for o in ops:
            if o['op'] == 'select-lang-fresh':
                o['_tok'] = tok
    expected = [[('ok', ('select-lang-fresh', ['1', '3'])) if o['op'] == 'select-lang-fresh' else solo(o, private) for o in ops]
                for ops in case['threads']]
    sc = case['schedule']
    if sc['kind'] == 'single':
        schedule = sched.SinglePreemption(sc['point'])
    elif sc['kind'] == 'double':
        schedule = sched.DoublePreemption(sc['i'], sc['j'])
    elif sc['kind'] == 'bursts':
        schedule = sched.Bursts(sc['bursts'])
    else:
        schedule = sched.Priorities(sc['prios'], sc['changes'])
    settings_before = interpreter_settings()
    sv.purge()
    if case.get('warm'):
        warm_up()
    runner = sched.Runner([[make_op(o, private) for o in ops] for ops in case['threads']], schedule,
                          opcode_files=tuple(case.get('opcode_files') or (('css_parser.py',) if opcode else ())))
    try:
        with warnings.catch_warnings():
            warnings.simplefilter('ignore')
            results = runner.run()
    except sched.Deadlock as e:
        raise common.HarnessError(f'scheduler deadlock: {e}')
    fails = []
    for tid in range(nthreads):
        for k, (got, exp) in enumerate(zip(results[tid], expected[tid])):
            op = case['threads'][tid][k]
            if got[0] != exp[0] or (got[0] == 'ok' and got[1] != exp[1]) or (got[0] == 'raise' and got[1] != exp[1]):
                what = f'raises {got[1]}: {got[2]}' if got[0] == 'raise' else 'returns a different value'
                b = ('thread-sees-exception-' + got[1]) if got[0] == 'raise' else 'thread-sees-wrong-' + op['op'] + '-result'
                fails.append((b, f'thread {tid} op {op["op"]} {(op.get("p") or "")[:60]!r} {what}; alone it gives {exp[0]} '
                                 f'{exp[1] if exp[0] == "raise" else ""}; threads {[[(o["op"], (o.get("p") or "")[:60]) for o in t] for t in case["threads"]]} '
                                 f'schedule {sc}'))
    if case.get('again_alone'):
        # every operation once more, sequentially and *without* purging: what the concurrent run left behind must not
        # change any later answer
        for tid, ops in enumerate(case['threads']):
            for kk, o in enumerate(ops):
                try:
                    with warnings.catch_warnings():
                        warnings.simplefilter('ignore')
                        later = ('ok', make_op(o, private)())
                except Exception as e:  # noqa: BLE001
                    later = ('raise', type(e).__name__)
                exp = expected[tid][kk]
                if later[0] != exp[0] or later[1] != exp[1]:
                    fails.append(('later-call-alone-differs', f'after the threads finished, {o["op"]} {(o.get("p") or "")[:40]!r} {o.get("map")} alone gives '
                                                              f'{later}, before the run it gave {exp}; schedule {sc}'))
    # nothing wrong left behind in the cache
    pats = sorted({o['p'] for ops in case['threads'] for o in ops if o.get('p') and '{fresh}' not in o['p'] and '<fresh>' not in o['p']})
    def outcome(p):
        try:
            return ('ok', compile_(p))
        except (sv.SelectorSyntaxError, RecursionError) as e:
            return ('raise', type(e).__name__)

    for p in pats:
        try:
            cached = outcome(p)
            sv.purge()
            fresh = outcome(p)
        except Exception as e:  # noqa: BLE001
            fails.append(('cache-check-raises-' + type(e).__name__, f'{p[:80]!r}: {e!r:.150}'))
            continue
        if cached[0] != fresh[0] or (cached[0] == 'ok' and len(p) < 300 and (cached[1].selectors != fresh[1].selectors or cached[1] != fresh[1])):
            fails.append(('poisoned-cache-entry', f'{p[:80]!r}: the entry left in the cache ({cached[0]}) differs from a fresh parse ({fresh[0]}); schedule {sc}'))
    settings_after = interpreter_settings()
    if settings_after != settings_before:
        fails.append(('interpreter-setting-left-changed', f'{settings_before} -> {settings_after} after threads {[[(o["op"], (o.get("p") or "")[:40]) for o in t] for t in case["threads"]]} schedule {sc}'))
        sys.set_int_max_str_digits(settings_before[0])
        sys.setrecursionlimit(settings_before[1])
    try:
        from soupsieve import css_parser as cp
        ci = cp._cached_css_compile.cache_info()
        if ci.currsize > ci.maxsize:
            fails.append(('cache-exceeds-bound', str(ci)))
    except Exception:  # noqa: BLE001
        pass
    return fails, {'switches': runner.switches, 'counts': list(runner.counts)}


def replay(case):
    if 'fresh' in case:
        fails, _ = check_fresh(case['fresh'])
        return fails[0] if fails else None
    fails, _ = run_case(case, opcode=case.get('opcode', False))
    return fails[0] if fails else None


def shrink(case, still, cap):
    if 'fresh' in case:
        return case
    t_end = time.time() + cap
    # drop operations, then threads
    changed = True
    while changed and time.time() < t_end:
        changed = False
        for ti, ops in enumerate(case['threads']):
            for oi in range(len(ops)):
                if sum(len(t) for t in case['threads']) <= 2:
                    break
                c2 = dict(case, threads=[[o for j, o in enumerate(t) if not (i == ti and j == oi)] for i, t in enumerate(case['threads'])])
                c2['threads'] = [t for t in c2['threads'] if t] if all(c2['threads']) or True else c2['threads']
                if len(c2['threads']) >= 2 and still(c2):
                    case = c2
                    changed = True
                    break
            if changed:
                break
    return case


def run_single_preemptions(col, ctx, pool, opcode):
    k, nsh = ctx['shard'], ctx['nshards']
    pairs = [(a, b) for a in pool for b in pool]
    idx = 0
    complete = True
    # cheap, special-purpose enumerations first (a few seconds), the big pool of pairs last
    if complete:
        lim = [{'op': 'select-limits', 'p': q} for q in LIMIT_SELECTORS[:2]] + [{'op': 'compile', 'p': HUGE_NTH, 'purge': True}]
        for opa in lim:
            npts, _res = sched.count_yield_points(make_op(dict(opa, tid=0), [None]))
            for opb in lim:
                for point in range(1, npts + 2):
                    idx += 1
                    if idx % nsh != k:
                        continue
                    if time.time() > ctx['t_end']:
                        col.extra['budget_exhausted'] = 1
                        complete = False
                        break
                    case = {'threads': [[dict(opa)], [dict(opb)]], 'schedule': {'kind': 'single', 'point': point},
                            'opcode': False}
                    fails, st = run_case(case, False)
                    col.count()
                    if st['switches'] >= 1:
                        col.classify('single-limits')
                        col.nontrivial_case(['single-limits', opa['op'], opa['p'][:20], opb['op'], opb['p'][:20], point], None)
                    for bkt, d in fails[:2]:
                        col.fail(bkt, case, d)
    if complete:
        # two compiles that are both deep inside nested functional pseudo-classes at the moment of the switch (anything
        # the parser keeps per class or per module while it recurses adds up across threads); 64 evenly spread points
        deep_a = ':is(' * DEEP + 'a' + ')' * DEEP
        deep_b = 'b:not(' * DEEP + 'c' + ')' * DEEP
        for pa, pb in ((deep_a, deep_b), (deep_b, deep_a)):
            opa = {'op': 'compile-outcome', 'p': pa, 'purge': True}
            opb = {'op': 'compile-outcome', 'p': pb, 'purge': True}
            npts, _res = sched.count_yield_points(make_op(dict(opa, tid=0), [None]))
            for j in range(64):
                point = max(1, int(npts * (j + 0.5) / 64))
                idx += 1
                if idx % nsh != k:
                    continue
                if time.time() > ctx['t_end']:
                    col.extra['budget_exhausted'] = 1
                    complete = False
                    break
                case = {'threads': [[dict(opa)], [dict(opb)]], 'schedule': {'kind': 'single', 'point': point}, 'opcode': False}
                fails, st = run_case(case, False)
                col.count()
                if st['switches'] >= 1:
                    col.classify('single-deep-nesting')
                    col.nontrivial_case(['single-deep', pa[:6], point], None)
                for bkt, d in fails[:2]:
                    col.fail(bkt, case, d)
            if not complete:
                break
    if complete:
        # two threads make the first evaluation ever of one language range (a fresh one per run) at the same time
        opl = {'op': 'select-lang-fresh', 'p': ':lang(en-<fresh>)'}
        npts, _res = sched.count_yield_points(make_op(dict(opl, tid=0, _tok='probe' + fresh_name().replace('-', '').lower()), [None]))
        for point in range(1, npts + 2):
            idx += 1
            if idx % nsh != k:
                continue
            if time.time() > ctx['t_end']:
                col.extra['budget_exhausted'] = 1
                complete = False
                break
            case = {'threads': [[dict(opl)], [dict(opl)]], 'schedule': {'kind': 'single', 'point': point}, 'opcode': False,
                    'again_alone': True}
            fails, st = run_case(case, False)
            col.count()
            if st['switches'] >= 1:
                col.classify('single-first-evaluation-of-a-range')
                col.nontrivial_case(['single-lang-fresh', point], None)
            for bkt, d in fails[:2]:
                for t_ in case['threads']:
                    for o_ in t_:
                        o_.pop('_tok', None)
                col.fail(bkt, case, d)
    if complete:
        # the same selector text under two different caller maps, all single pre-emptions; afterwards each call is made
        # again alone (nothing about one caller's map may stay behind for the other)
        ns_ops = [{'op': 'select-ns', 'p': 'ns|item', 'map': {'ns': 'urn:one'}}, {'op': 'select-ns', 'p': 'ns|item', 'map': {'ns': 'urn:two'}},
                  {'op': 'select-ns', 'p': 'ns|item, |item', 'map': {'ns': 'urn:two', 'x': 'urn:one'}}]
        for opa, opb in ((ns_ops[0], ns_ops[1]), (ns_ops[1], ns_ops[0]), (ns_ops[2], ns_ops[0])):
            npts, _res = sched.count_yield_points(make_op(dict(opa, tid=0), [None]))
            for point in range(1, npts + 2):
                idx += 1
                if idx % nsh != k:
                    continue
                if time.time() > ctx['t_end']:
                    col.extra['budget_exhausted'] = 1
                    complete = False
                    break
                case = {'threads': [[dict(opa)], [dict(opb)]], 'schedule': {'kind': 'single', 'point': point}, 'opcode': False,
                        'again_alone': True}
                fails, st = run_case(case, False)
                col.count()
                if st['switches'] >= 1:
                    col.classify('single-two-caller-maps')
                    col.nontrivial_case(['single-ns', json.dumps(opa['map'], sort_keys=True), json.dumps(opb['map'], sort_keys=True), point], None)
                for bkt, d in fails[:2]:
                    col.fail(bkt, case, d)
            if not complete:
                break
    if complete:
        # both memos full, both threads guaranteed to miss them; opcode granularity inside util.py (the name memo)
        for ta, tb in (('a, [{fresh}]', 'p, [{fresh}]'), ('[{fresh}=x]', 'a, [{fresh}]')):
            opa = {'op': 'select-fresh', 'p': ta}
            opb = {'op': 'select-fresh', 'p': tb}
            warm_up()
            npts, _res = sched.count_yield_points(make_op(dict(opa, tid=0), [None]), ('util.py',))
            for point in range(1, npts + 2):
                idx += 1
                if idx % nsh != k:
                    continue
                if time.time() > ctx['t_end']:
                    col.extra['budget_exhausted'] = 1
                    complete = False
                    break
                case = {'threads': [[dict(opa)], [dict(opb)]], 'schedule': {'kind': 'single', 'point': point},
                        'opcode': False, 'opcode_files': ['util.py'], 'warm': True}
                fails, st = run_case(case, False)
                col.count()
                if st['switches'] >= 1:
                    col.classify('single-caches-at-capacity')
                    col.nontrivial_case(['single-capacity', ta, tb, point], None)
                for bkt, d in fails[:2]:
                    col.fail(bkt, case, d)
            if not complete:
                break
    if complete:
        for a in DETACHED_SELECTORS[:3]:
            for b in DETACHED_SELECTORS[:3]:
                opa = {'op': 'match-detached', 'p': a}
                npts, _res = sched.count_yield_points(make_op(dict(opa, tid=0), [None]))
                for point in range(1, npts + 2):
                    idx += 1
                    if idx % nsh != k:
                        continue
                    if time.time() > ctx['t_end']:
                        col.extra['budget_exhausted'] = 1
                        complete = False
                        break
                    case = {'threads': [[dict(opa)], [{'op': 'match-detached', 'p': b}]],
                            'schedule': {'kind': 'single', 'point': point}, 'opcode': False}
                    fails, st = run_case(case, False)
                    col.count()
                    if st['switches'] >= 1:
                        col.nontrivial_case(['single-detached', a, b, point], None)
                    for bkt, d in fails[:2]:
                        col.fail(bkt, case, d)
    if not complete:
        pairs_to_run = []
    else:
        pairs_to_run = pairs
    for a, b in pairs_to_run:
        opa = {'op': 'compile', 'p': a, 'purge': True}
        npts, _res = sched.count_yield_points(make_op(dict(opa, tid=0), [None]),
                                              ('css_parser.py',) if opcode else ())
        for point in range(1, npts + 2):
            idx += 1
            if idx % nsh != k:
                continue
            if time.time() > ctx['t_end']:
                col.extra['budget_exhausted'] = 1
                complete = False
                break
            case = {'threads': [[dict(opa)], [{'op': 'compile', 'p': b, 'purge': True}]],
                    'schedule': {'kind': 'single', 'point': point}, 'opcode': opcode}
            fails, st = run_case(case, opcode)
            col.count()
            if st['switches'] >= 1:
                col.nontrivial_case(['single', a, b, point],
                                    {'threads': [a, b], 'preempt_A_after_yield_points': point, 'yield_points': st['counts']}
                                    if point % 97 == 0 else None)
            for bkt, d in fails[:2]:
                col.fail(bkt, case, d)
        if not complete:
            break
    col.extra['single_preemption_complete'] = int(complete)
    col.extra['pairs'] = len(pairs) if k == 0 else 0


FRESH_PSEUDOS = (':checked', ':default', ':indeterminate', ':disabled', ':enabled', ':required', ':optional', ':read-only',
                 ':read-write', ':in-range', ':out-of-range', ':placeholder-shown', ':any-link', ':link', ':dir(ltr)',
                 ':lang(en)', ':nth-child(2n+1 of input)', ':defined', ':root', ':empty')


def fresh_process(job):
    env = dict(os.environ, VERIF_REPO=common.REPO, PYTHONDONTWRITEBYTECODE='1', PYTHONHASHSEED='0')
    worker = os.path.join(common.VERIF, 'fuzz', 'c14_fresh.py')
    p = subprocess.run([sys.executable, worker], input=json.dumps(job), env=env, capture_output=True, text=True, timeout=300)
    if p.returncode != 0:
        raise common.HarnessError(f'C14 fresh-process worker failed: {p.stderr[-400:]}')
    return json.loads(p.stdout)


def check_fresh(job):
    out = fresh_process(job)
    fails = []
    for tid, (got, alone) in enumerate(zip(out['got'], out['alone'])):
        text = job['a'] if tid == 0 else job['b']
        same = got[0] == alone[0] and (got[1] == alone[1] if got[0] == 'ok' else got[1] == alone[1])
        if not same:
            fails.append(('first-use-in-process-differs-from-alone',
                          f'fresh interpreter, thread A select({job["a"]!r}) pre-empted after {job["point"]} yield points by thread B '
                          f'select({job["b"]!r}): thread {"AB"[tid]} {text!r} gives {got[:2]}, alone it gives {alone}'))
    return fails, out


def run_fresh_first_use(col, ctx, per_pseudo):
    """The first use of a construct in a process is a state of its own (lazily built tables, cold memos): every schedule
    here runs as the first thing a fresh interpreter does with the library."""
    k, nsh = ctx['shard'], ctx['nshards']
    idx = 0
    for ps in FRESH_PSEUDOS:
        a, b = 'input' + ps, '*' + ps
        idx += 1
        if idx % nsh != k:
            continue
        if time.time() > ctx['t_end']:
            col.extra['budget_exhausted'] = 1
            return
        n = fresh_process({'a': a, 'b': b, 'point': None})['points']
        # the first half of A's yield points covers its compilation (where first-use work happens); spread evenly
        pts = sorted({max(1, int(n * 0.6 * (j + 0.5) / per_pseudo)) for j in range(per_pseudo)})
        for point in pts:
            if time.time() > ctx['t_end']:
                col.extra['budget_exhausted'] = 1
                return
            job = {'a': a, 'b': b, 'point': point}
            fails, out = check_fresh(job)
            col.count()
            col.classify('fresh-process-first-use')
            if out['switches'] >= 1:
                col.nontrivial_case(['fresh', a, b, point], {'fresh_interpreter': True, 'threads': [a, b], 'preempt_A_after_yield_points': point,
                                                             'yield_points_of_A': n} if point == pts[0] else None)
            for bkt, d in fails[:2]:
                col.fail(bkt, {'fresh': job}, d)


def run_double_preemptions(col, ctx):
    """Thorough: every (i, j) double pre-emption for two pairs of special-pseudo-class compiles."""
    k, nsh = ctx['shard'], ctx['nshards']
    idx = 0
    complete = True
    for a, b in ((':nth-child(2n+1)', ':lang(en)'), (':-soup-contains("a")', ':dir(rtl)')):
        opa = {'op': 'compile', 'p': a, 'purge': True}
        opb = {'op': 'compile', 'p': b, 'purge': True}
        na, _ = sched.count_yield_points(make_op(dict(opa, tid=0), [None]))
        nb, _ = sched.count_yield_points(make_op(dict(opb, tid=0), [None]))
        for i in range(1, na + 1, 2):
            for j in range(1, nb + 1, 2):
                idx += 1
                if idx % nsh != k:
                    continue
                if idx % 64 == k and time.time() > ctx['t_end']:
                    col.extra['budget_exhausted'] = 1
                    complete = False
                    break
                case = {'threads': [[dict(opa)], [dict(opb)]], 'schedule': {'kind': 'double', 'i': i, 'j': j}, 'opcode': False}
                fails, st = run_case(case, False)
                col.count()
                if st['switches'] >= 2:
                    col.nontrivial_case(['double', a, b, i, j], None)
                for bkt, d in fails[:2]:
                    col.fail(bkt, case, d)
            if not complete:
                break
        if not complete:
            break
    col.extra['double_preemption_complete'] = int(complete)


def gen_mixed(ch, pool):
    nthreads = ch.i(2, 4)
    threads = []
    for t in range(nthreads):
        ops = []
        for _ in range(ch.i(1, 3)):
            r = ch.i(0, 9)
            p = ch.pick(pool)
            if r <= 4:
                ops.append({'op': 'compile', 'p': p, 'purge': ch.p(0.7)})
            elif r == 5:
                ops.append({'op': 'purge'})
            elif r == 6 and ch.p(0.5):
                ops.append({'op': 'match-detached', 'p': ch.pick(DETACHED_SELECTORS)})
            elif r == 6:
                ops.append({'op': 'select-limits', 'p': ch.pick(LIMIT_SELECTORS)} if ch.p(0.5) else
                           {'op': 'compile', 'p': HUGE_NTH, 'purge': ch.p(0.5)})
            elif r == 7 and ch.p(0.4):
                ops.append({'op': 'select-fresh', 'p': ch.pick(('a, [{fresh}]', '[{fresh}=x], p', ':not([{fresh}])'))})
            else:
                ops.append({'op': ch.pick(('select', 'match', 'filter', 'closest')), 'p': p,
                            'doc': ch.pick(('shared', 'private')), 'target': ch.i(-1, 30)})
        threads.append(ops)
    if ch.p(0.6):
        sc = {'kind': 'bursts', 'bursts': [[ch.i(0, nthreads - 1), ch.pick((1, 2, 3, 5, 8, 13, 40, 150))]
                                           for _ in range(ch.i(2, 6))]}
    else:
        sc = {'kind': 'pct', 'prios': [ch.i(0, 9) for _ in range(nthreads)],
              'changes': [ch.i(1, 1500) for _ in range(ch.i(0, 3))]}
    case = {'threads': threads, 'schedule': sc}
    if any(o['op'] == 'select-fresh' for t in threads for o in t):
        case['warm'] = True
        case['opcode_files'] = ['util.py']
    return case


def shard(ctx):
    col = common.Collector()
    tier = ctx['tier']
    opcode = tier == 'thorough'
    pool = POOL_QUICK if tier == 'quick' else POOL_QUICK + POOL_MORE
    t_mixed_end = time.time() + ctx['budget_s'] * 0.33

    def body(ch):
        case = gen_mixed(ch, POOL_QUICK + POOL_MORE)
        fails, st = run_case(case, False)
        col.count()
        col.classify('schedule:' + case['schedule']['kind'], f'threads:{len(case["threads"])}')
        if st['switches'] >= 1:
            col.classify('switched')
            col.nontrivial_case(case, {'threads': [[(o['op'], o.get('p')) for o in t] for t in case['threads']],
                                       'schedule': case['schedule'], 'switches': st['switches']})
        for bkt, d in fails[:2]:
            col.fail(bkt, case, d)

    ex = common.hyp_run(choose.choices(512), body, 3000 if tier == 'quick' else 300000, ctx['hseed'],
                        deadline_ts=t_mixed_end)
    col.extra['mixed_budget_exhausted'] = int(ex)
    run_fresh_first_use(col, dict(ctx, t_end=time.time() + ctx['budget_s'] * 0.2), 8 if tier == 'quick' else 60)
    if tier == 'thorough':
        ctx2 = dict(ctx, t_end=time.time() + ctx['budget_s'] * 0.25)
        run_double_preemptions(col, ctx2)
    run_single_preemptions(col, ctx, pool, opcode)
    return col


def evidence_extra(merged):
    return {'exhaustive': merged['extra'].get('single_preemption_complete', 0) == len(merged.get('shard_wall', []))}
