"""Choice sequences: every random decision of a generator is read from one Hypothesis-drawn (or
libFuzzer-mutated) byte string, FuzzedDataProvider style.  A generator is then a pure function of the
bytes, which keeps one Hypothesis draw per case (fast), stays seed-deterministic, and lets the same
generators sit behind atheris.  All-zero bytes decode to the simplest case.
"""
from __future__ import annotations

from hypothesis import strategies as st


class Chooser:
    def __init__(self, data: bytes):
        self.d = data
        self.pos = 0

    def _take(self, k):
        b = self.d[self.pos:self.pos + k]
        self.pos += k
        return int.from_bytes(b, 'big') if b else 0

    def exhausted(self):
        return self.pos >= len(self.d)

    def i(self, lo, hi):
        """Integer in [lo, hi]."""
        n = hi - lo + 1
        if n <= 1:
            return lo
        k = 1 if n <= 256 else 2 if n <= 65536 else 4 if n <= 2 ** 32 else 8
        return lo + self._take(k) % n

    def p(self, prob):
        """True with probability ~prob; the zero choice is False."""
        return self._take(2) % 1000 >= 1000 - int(prob * 1000)

    def pick(self, seq):
        return seq[self.i(0, len(seq) - 1)]

    def weighted(self, pairs):
        """pairs: [(weight, value)...]"""
        total = sum(w for w, _ in pairs)
        r = self.i(0, total - 1)
        for w, v in pairs:
            if r < w:
                return v
            r -= w
        return pairs[-1][1]

    def sample(self, seq, kmax):
        n = self.i(0, min(kmax, len(seq)))
        pool = list(seq)
        out = []
        for _ in range(n):
            out.append(pool.pop(self.i(0, len(pool) - 1)))
        return out

    def codepoint(self, surrogates=False):
        r = self.i(0, 9)
        if r <= 3:
            c = self.i(0x20, 0x7e)
        elif r == 4:
            c = self.i(0, 0x1f)
        elif r == 5:
            c = self.i(0x7f, 0xff)
        elif r == 6:
            c = self.i(0x100, 0xffff)
        elif r == 7:
            c = self.i(0x10000, 0x10ffff)
        elif r == 8:
            c = self.pick([0x20, 0x09, 0x0a, 0x0c, 0x0d, 0x5c, 0x22, 0x27, 0x2d, 0x30, 0x41, 0x61, 0xa0, 0x80, 0x9f,
                           0xfffd, 0x2028, 0x130, 0x17f, 0x212a, 0x5d0, 0x627])
        else:
            c = self.i(0xd800, 0xdfff) if surrogates else self.i(0x20, 0x7e)
        if not surrogates and 0xd800 <= c <= 0xdfff:
            c = 0xfffd
        return c

    def text(self, max_len=8, min_len=0, surrogates=False, exclude=''):
        n = self.i(min_len, max_len)
        out = []
        for _ in range(n):
            c = chr(self.codepoint(surrogates))
            if c in exclude:
                continue
            out.append(c)
        return ''.join(out)


def choices(nbytes=1024):
    """Strategy producing a Chooser: one Hypothesis draw (a big integer) per case."""
    top = (1 << (8 * nbytes)) - 1
    return st.integers(min_value=0, max_value=top).map(lambda v: Chooser(v.to_bytes(nbytes, 'little')))
