#!/venv/bin/python
"""Offline setup: make sure hypothesis is importable under /venv and (best effort) install atheris into .deps."""
import os
import subprocess
import sys

V = os.path.dirname(os.path.dirname(os.path.abspath(__file__)))
WH = '/opt/veriftools/wheels'


def pip(*args):
    return subprocess.call([sys.executable, '-m', 'pip', 'install', '--no-index', '--find-links', WH, '-q', *args])


try:
    import hypothesis  # noqa: F401
except ImportError:
    if pip('hypothesis') != 0:
        print('setup: cannot install hypothesis')
        sys.exit(1)
deps = os.path.join(V, '.deps')
if not os.path.isdir(os.path.join(deps, 'atheris')):
    rc = pip('--target', deps, 'atheris')
    if rc != 0:
        print('setup: atheris not installed (C06/C07 fall back to Hypothesis only)')
print('setup ok')
