#!/venv/bin/python
"""Entry point: /verif/check.py <ID> [--tier quick|thorough] [--replay FILE]."""
import argparse
import os
import sys

if sys.flags.hash_randomization != 0 and os.environ.get('_VERIF_REEXEC') != '1':
    # re-exec once so that hash randomisation is really off in this process and its children
    os.environ['PYTHONHASHSEED'] = '0'
    os.environ['_VERIF_REEXEC'] = '1'
    os.execv(sys.executable, [sys.executable] + sys.argv)
os.environ['PYTHONHASHSEED'] = '0'

sys.path.insert(0, os.path.dirname(os.path.abspath(__file__)))
from engine import common  # noqa: E402


def main():
    ap = argparse.ArgumentParser()
    ap.add_argument('prop')
    ap.add_argument('--tier', default=os.environ.get('VERIF_TIER', 'quick'), choices=['quick', 'thorough'])
    ap.add_argument('--replay', default=None)
    a = ap.parse_args()
    pid = a.prop.upper()
    mods = {f[:3].upper(): f[:-3] for f in os.listdir(os.path.join(common.VERIF, 'props')) if f.startswith('c') and f.endswith('.py')}
    if pid not in mods:
        print(f'unknown property {pid}')
        return 2
    os.chdir(common.VERIF)
    return common.main_check(pid, 'props.' + mods[pid], a.tier, a.replay)


if __name__ == '__main__':
    try:
        rc = main()
    except SystemExit:
        raise
    except BaseException:  # noqa: B036
        import traceback
        traceback.print_exc()
        print('HARNESS-ERROR (runner)')
        rc = 2
    sys.exit(rc)
