#!/bin/bash
# usage: tools/revert_mutant.sh <commit> -- <check args...>
# Builds a scratch worktree of /repo with <commit> reverted (a ready-made mutant: every fix: commit
# reverted re-introduces the defect it repaired), runs ./check.py against it, removes the worktree.
set -u
c="$1"; shift; [ "$1" = "--" ] && shift
d=$(mktemp -d /tmp/mut.XXXXXX)
git -C /repo worktree add -q --detach "$d" HEAD || exit 2
( cd "$d" && git revert -n "$c" >/dev/null 2>&1 ) || { echo "revert failed"; git -C /repo worktree remove --force "$d"; exit 2; }
VERIF_REPO="$d" VERIF_NO_EVIDENCE=1 /verif/check.py "$@"
rc=$?
git -C /repo worktree remove --force "$d"
rm -rf "$d"
exit $rc
