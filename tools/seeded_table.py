#!/usr/bin/env python3
"""Regenerate the seeded-changes table of DESIGN.md (between the seeded-table markers) from seeded/*/meta.json."""
import glob
import json
import os

V = os.path.dirname(os.path.dirname(os.path.abspath(__file__)))
NOTES = json.load(open(os.path.join(V, 'seeded', 'notes.json')))


def main():
    rows = []
    for d in sorted(glob.glob(os.path.join(V, 'seeded', '*', 'meta.json'))):
        m = json.load(open(d))
        name = m['name']
        caught = [p for p, v in m['checks_run'].items() if v['exit'] == 1]
        missed = [p for p, v in m['checks_run'].items() if v['exit'] == 0]
        needs = (m.get('agent_meta', {}).get('needs') or '')
        if isinstance(needs, (list, dict)):
            needs = json.dumps(needs)
        needs = str(needs).replace('\n', ' ').replace('|', '\\|')[:170]
        ok = 'yes' if m['confirmed']['ok'] else 'NO'
        if m.get('superseded_by'):
            ok = f"yes, at {m['base_commit']}; harmless since fix {', '.join(m['superseded_by'])}"
        rows.append(f"| `seeded/{name}` | {m['breaks_property']} | {ok} | {needs} | {', '.join(caught) or '-'}"
                    f"{(' (not: ' + ', '.join(missed) + ')') if missed else ''} | {NOTES.get(name, 'caught as built')} |")
    table = ('| change | breaks | confirmed | needs (author\'s words, abridged) | caught by | note |\n|---|---|---|---|---|---|\n' +
             '\n'.join(rows) + '\n')
    p = os.path.join(V, 'DESIGN.md')
    s = open(p).read()
    a, b = '<!-- seeded-table-begin -->\n', '<!-- seeded-table-end -->'
    i, j = s.index(a) + len(a), s.index(b)
    open(p, 'w').write(s[:i] + table + s[j:])
    print(len(rows), 'rows')


if __name__ == '__main__':
    main()
