"""C09 - compiled meaning depends only on the token sequence, not on its spelling (metamorphic respelling)."""
from __future__ import annotations

import warnings

import soupsieve as sv

from engine import choose, common, fullgrammar as FG, respell, selast as S, trees
from engine.htmldoc import WITNESS_RECIPE

ID = 'C09'
BUDGET = {'quick': 50, 'thorough': 900}
META = {
    'rule': 'a valid full-grammar selector AST is rendered canonically and respelled with independent choices at every '
            'site: whitespace/comment runs around combinators, commas, inside brackets and parentheses, around the '
            'An+B sign and "of", at both ends; identifier/string characters as CSS escapes (\\c, 1-6 hex digits with '
            'every terminator, line continuations in strings); value quoting (double, single, bare identifier); '
            'letter case of pseudo-class names, n/even/odd/of, ltr/rtl, i/s. Each rule is also applied alone at a '
            'single site (delta cases). Oracle: both compile, .selectors are equal, and both select the same '
            'elements of a witness document. Non-trivial: >= 1 rewrite was applied; distinct by respelled text',
    'assumptions': ['not generated: a comment instead of whitespace between two compounds, whitespace between ":"/name/"(", '
                    'escapes inside the keywords n/even/odd/of/ltr/rtl/i/s'],
}

CUSTOM = {':--foo': 'p > a', ':--bar': ':--foo:is(b)'}
CFG = FG.Cfg(ns_forms=True, prefixes=('svg', 'x'), custom=('--foo', '--bar'), big_nth=False)
NS = {'svg': 'http://www.w3.org/2000/svg', 'x': 'urn:x'}
_doc = [None]


def witness():
    if _doc[0] is None:
        _doc[0] = trees.materialise(WITNESS_RECIPE)
    return _doc[0]


def compile_quiet(text):
    with warnings.catch_warnings():
        warnings.simplefilter('ignore')
        return sv.compile(text, NS, custom=CUSTOM)


def compare(canon_text, text):
    """Return None or (bucket, detail)."""
    try:
        c0 = compile_quiet(canon_text)
    except Exception as e:  # noqa: BLE001
        raise common.HarnessError(f'canonical rendering does not compile: {canon_text!r}: {e!r}')
    try:
        c1 = compile_quiet(text)
    except sv.SelectorSyntaxError as e:
        return ('respelling-rejected', f'{text!r} is a respelling of {canon_text!r} but raises: {str(e)[:200]}')
    except Exception as e:  # noqa: BLE001
        return ('respelling-raises-' + type(e).__name__, f'{text!r}: {e!r}')
    if c0.selectors != c1.selectors:
        return ('structure-differs', f'{text!r} and {canon_text!r} compile to different structures')
    doc = witness()
    a = [id(x) for x in c0.select(doc.target)]
    b = [id(x) for x in c1.select(doc.target)]
    if a != b:
        return ('selection-differs', f'{text!r} selects {len(b)} elements, {canon_text!r} selects {len(a)}')
    return None


def replay(case):
    return compare(case['canonical'], case['text'])


def shrink(case, still, cap):
    return case   # the delta (single-site) cases are already minimal; the pair itself is the replay


def shard(ctx):
    col = common.Collector()
    tier = ctx['tier']

    def body(ch):
        sl = FG.gen_list(ch, CFG)
        canon = S.render_list(sl)
        # all-sites respellings
        for _ in range(3):
            r = respell.Respeller(ch, 'all', ch.pick((0.15, 0.35, 0.8)))
            text = r.pattern(sl)
            out = compare(canon, text)
            col.count()
            for _i, kind in r.applied:
                col.classify(kind)
            if r.applied:
                col.nontrivial_case(common.stable_hash(text), {'canonical': canon, 'respelled': text,
                                                               'rules': sorted({k for _i, k in r.applied})})
            if out:
                kinds = sorted({k for _i, k in r.applied})
                col.fail(out[0], {'canonical': canon, 'text': text, 'rules': kinds}, out[1])
        # delta cases: one site at a time
        probe = respell.Respeller(ch, 'none')
        probe.pattern(sl)
        nsites = probe.n
        for _ in range(min(nsites, 6)):
            t = ch.i(0, nsites - 1)
            r = respell.Respeller(ch, 'single', target=t)
            text = r.pattern(sl)
            if not r.applied or text == canon:
                continue
            out = compare(canon, text)
            col.count()
            kind = r.applied[0][1]
            col.classify('delta:' + kind)
            col.nontrivial_case(common.stable_hash(text), None)
            if out:
                col.fail(out[0] + ':' + kind, {'canonical': canon, 'text': text, 'rules': [kind]}, out[1])

    ex = common.hyp_run(choose.choices(4096), body, 6000 if tier == 'quick' else 600000, ctx['hseed'],
                        deadline_ts=ctx['t_end'])
    col.extra['budget_exhausted'] = int(ex)
    return col
