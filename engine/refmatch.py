"""E3 - reference matcher: a deliberately naive interpreter of the selector AST on a bs4 tree.

Uses only .parent, .contents, .name, .namespace, .attrs (+ NamespacedAttribute.namespace/.name) and
isinstance node-kind tests.  No caching, no regexes for matching, full backtracking.
"""
from __future__ import annotations

import soupsieve  # noqa: F401
import bs4
from bs4 import BeautifulSoup, CData, Comment, Declaration, Doctype, ProcessingInstruction

NS_XHTML = 'http://www.w3.org/1999/xhtml'
NS_XML = 'http://www.w3.org/XML/1998/namespace'
CSS_WS = ' \t\r\n\f'
SPECIAL = (Comment, Declaration, CData, ProcessingInstruction, Doctype)


def ascii_lower(s):
    return ''.join(chr(ord(c) + 32) if 'A' <= c <= 'Z' else c for c in s)


def css_split(s):
    out, cur = [], []
    for c in s:
        if c in CSS_WS:
            if cur:
                out.append(''.join(cur))
                cur = []
        else:
            cur.append(c)
    if cur:
        out.append(''.join(cur))
    return out


def is_elem(n):
    return isinstance(n, bs4.Tag) and not isinstance(n, BeautifulSoup)


def is_text(n):
    """A text node that counts as content (not comment/CDATA/PI/declaration/doctype)."""
    return isinstance(n, bs4.NavigableString) and not isinstance(n, SPECIAL)


def norm_value(v):
    if v is None:
        return ''
    if isinstance(v, str):
        return v
    if isinstance(v, bytes):
        return v.decode('utf8')
    if isinstance(v, (list, tuple)):
        return ' '.join(norm_value(x) if not isinstance(x, (list, tuple)) else str(x) for x in v)
    return str(v)


class Ctx:
    """Document facts the definitions need, read from the bs4 objects the documentation names."""

    def __init__(self, target, namespaces=None, custom=None):
        top = target
        while top.parent is not None:
            top = top.parent
        self.top = top
        self.has_doc = isinstance(top, BeautifulSoup)
        if self.has_doc:
            root = None
            for c in top.contents:
                if isinstance(c, bs4.Tag):
                    root = c
                    break
        else:
            root = top
        self.root = root
        self.scope = root if (self.has_doc and target is top) else target
        self.is_xml = bool(top.is_xml) if self.has_doc else bool(top._is_xml)
        self.root_html_ns = root is not None and root.namespace == NS_XHTML
        self.is_html = (not self.is_xml) or self.root_html_ns
        self.ns_aware = self.is_xml or self.root_html_ns
        self.namespaces = dict(namespaces or {})
        self.custom = custom or {}
        self.target = target

    # -- names
    def fold_name(self, s):
        return s if self.is_xml else ascii_lower(s)

    def el_ns(self, el):
        if self.ns_aware:
            return el.namespace or ''
        return NS_XHTML

    def el_name(self, el):
        return self.fold_name(el.name)

    def is_html_el(self, el):
        return self.el_ns(el) == NS_XHTML


def parent_elem(el):
    p = el.parent
    return p if is_elem(p) else None


def elem_children(node):
    return [c for c in node.contents if isinstance(c, bs4.Tag)]


def elem_siblings(el):
    p = el.parent
    if p is None:
        return [el]
    return [c for c in p.contents if isinstance(c, bs4.Tag)]


def elem_descendants(node):
    out = []
    for c in node.contents:
        if isinstance(c, bs4.Tag):
            out.append(c)
            out.extend(elem_descendants(c))
    return out


# ------------------------------------------------------------------ simple selectors

def match_ns(ctx, el, ns, top_level_implied=False):
    """Namespace part of a type selector. ns: None (no prefix), '*', '' or a prefix."""
    uri = ctx.el_ns(el)
    if ns is None:
        d = ctx.namespaces.get('')
        return d is None or uri == d
    if ns == '*':
        return True
    if ns == '':
        return uri == ''
    mapped = ctx.namespaces.get(ns)
    return mapped is not None and uri == mapped


def match_tag(ctx, el, tag, top_level):
    if tag is None:
        if top_level:
            return match_ns(ctx, el, None)
        return True
    if not match_ns(ctx, el, tag.get('ns')):
        return False
    if tag['name'] == '*':
        return True
    return ctx.fold_name(tag['name']) == ctx.el_name(el)


def key_ns(k):
    """Namespace URI of an attribute key; the empty string is no namespace."""
    return getattr(k, 'namespace', None) or None


def plain_attr(ctx, el, name):
    """Value of the un-namespaced attribute `name` under the document's name-case rule (or None)."""
    for k, v in el.attrs.items():
        if ctx.ns_aware and key_ns(k) is not None:
            continue
        if (k == name) if ctx.is_xml else (ascii_lower(k) == ascii_lower(name)):
            return norm_value(v)
    return None


def find_attr(ctx, el, a):
    """Return the attribute value selected by [ns|name] or None."""
    name, ns = a['name'], a.get('ns')
    if not ctx.ns_aware:
        # not a namespace-aware tree: the prefix has no meaning, names are case-insensitive
        for k, v in el.attrs.items():
            if ascii_lower(str(k)) == ascii_lower(name):
                return norm_value(v)
        return None

    def same(x):
        return (x == name) if ctx.is_xml else (ascii_lower(x) == ascii_lower(name))

    if ns is None or ns == '':
        for k, v in el.attrs.items():
            if key_ns(k) is None and same(str(k)):
                return norm_value(v)
        return None
    if ns == '*':
        for k, v in el.attrs.items():
            kns = key_ns(k)
            local = str(k) if kns is None or getattr(k, 'name', None) is None else k.name
            if same(local):
                return norm_value(v)
        return None
    uri = ctx.namespaces.get(ns)
    if uri is None:
        return None
    for k, v in el.attrs.items():
        kns = key_ns(k)
        if kns is not None and kns == uri and getattr(k, 'name', None) is not None and same(k.name):
            return norm_value(v)
    return None


def attr_op(op, v, s):
    if op == '=':
        return v == s
    if op == '~=':
        if not s or any(c in CSS_WS for c in s):
            return False
        return s in css_split(v)
    if op == '|=':
        return v == s or v.startswith(s + '-')
    if op == '^=':
        return bool(s) and v.startswith(s)
    if op == '$=':
        return bool(s) and v.endswith(s)
    if op == '*=':
        return bool(s) and s in v
    raise ValueError(op)


def match_attr(ctx, el, a):
    v = find_attr(ctx, el, a)
    op = a.get('op')
    if op is None:
        return v is not None
    if op == '!=':
        if v is None:
            return True
        return not _cmp(ctx, a, '=', v)
    if v is None:
        return False
    return _cmp(ctx, a, op, v)


def _cmp(ctx, a, op, v):
    s = a['val']
    flag = ascii_lower(a.get('flag') or '') or None   # the flag itself is an ASCII case-insensitive identifier
    insensitive = False
    if flag == 'i':
        insensitive = True
    elif flag == 's':
        insensitive = False
    elif ascii_lower(a['name']) == 'type' and not ctx.is_xml:
        insensitive = True
    if insensitive:
        return attr_op(op, ascii_lower(v), ascii_lower(s))
    return attr_op(op, v, s)


def el_classes(ctx, el):
    for k, v in el.attrs.items():
        if (k == 'class') if ctx.is_xml else (ascii_lower(str(k)) == 'class'):
            if isinstance(v, str):
                return css_split(v)
            if v is None:
                return []
            if isinstance(v, bytes):
                return css_split(v.decode('utf8'))
            if isinstance(v, (list, tuple)):
                return [norm_value(x) for x in v]
            return css_split(str(v))
    return []


def el_id(ctx, el):
    for k, v in el.attrs.items():
        if (k == 'id') if ctx.is_xml else (ascii_lower(str(k)) == 'id'):
            return norm_value(v)
    return ''


# ------------------------------------------------------------------ positional

def anb(a, b, pos):
    """Exists n >= 0 with a*n + b == pos."""
    if a == 0:
        return b == pos
    d = pos - b
    return d % a == 0 and d // a >= 0


def same_type(ctx, x, y):
    return ctx.el_name(x) == ctx.el_name(y) and ctx.el_ns(x) == ctx.el_ns(y)


def match_nth(ctx, el, a, b, last=False, of_type=False, of=None):
    sibs = elem_siblings(el)
    if of is not None:
        if not match_list(ctx, el, of, top_level=False):
            return False
        sibs = [s for s in sibs if match_list(ctx, s, of, top_level=False)]
    elif of_type:
        sibs = [s for s in sibs if same_type(ctx, s, el)]
    if last:
        sibs = list(reversed(sibs))
    pos = None
    for i, s in enumerate(sibs, 1):
        if s is el:
            pos = i
            break
    if pos is None:
        return False
    return anb(a, b, pos)


def is_iframe(ctx, el):
    """An HTML `iframe` element of an HTML document (documented: each iframe holds its own document)."""
    return is_elem(el) and ctx.is_html and ctx.fold_name(el.name) == 'iframe' and ctx.is_html_el(el)


def match_root(ctx, el):
    p = el.parent
    if p is not None and not isinstance(p, BeautifulSoup) and not is_iframe(ctx, p):
        return False
    if p is None:
        return True
    for s in p.contents:
        if s is el:
            continue
        if isinstance(s, bs4.Tag) or isinstance(s, CData):
            return False
        if is_text(s) and s.strip():
            return False
    return True


def match_empty(ctx, el):
    for c in el.contents:
        if isinstance(c, bs4.Tag):
            return False
        if is_text(c) and any(ch not in CSS_WS for ch in c):
            return False
    return True


# ------------------------------------------------------------------ pseudo dispatch

EXT = {}  # name -> fn(ctx, el, pseudo) for pseudo-classes defined in other reference modules


def match_pseudo(ctx, el, p):
    n = p['p']
    if n == 'not':
        return not match_list(ctx, el, p['args'], top_level=False)
    if n in ('is', 'where', 'matches'):
        return match_list(ctx, el, p['args'], top_level=False)
    if n == 'has':
        return any(match_relative(ctx, el, c, 0) for c in p['args'])
    if n == 'root':
        return match_root(ctx, el)
    if n == 'empty':
        return match_empty(ctx, el)
    if n == 'first-child':
        return match_nth(ctx, el, 0, 1)
    if n == 'last-child':
        return match_nth(ctx, el, 0, 1, last=True)
    if n == 'only-child':
        return match_nth(ctx, el, 0, 1) and match_nth(ctx, el, 0, 1, last=True)
    if n == 'first-of-type':
        return match_nth(ctx, el, 0, 1, of_type=True)
    if n == 'last-of-type':
        return match_nth(ctx, el, 0, 1, last=True, of_type=True)
    if n == 'only-of-type':
        return match_nth(ctx, el, 0, 1, of_type=True) and match_nth(ctx, el, 0, 1, last=True, of_type=True)
    if n == 'nth-child':
        return match_nth(ctx, el, p['a'], p['b'], of=p.get('of'))
    if n == 'nth-last-child':
        return match_nth(ctx, el, p['a'], p['b'], last=True, of=p.get('of'))
    if n == 'nth-of-type':
        return match_nth(ctx, el, p['a'], p['b'], of_type=True)
    if n == 'nth-last-of-type':
        return match_nth(ctx, el, p['a'], p['b'], last=True, of_type=True)
    if n in ('scope', 'amp'):
        return el is ctx.scope
    if n in ('nomatch', 'nomatch-fn'):
        return False
    if n == 'custom':
        return match_list(ctx, el, ctx.custom[ascii_lower(p['name'])], top_level=False)
    if n in EXT:
        return EXT[n](ctx, el, p)
    raise NotImplementedError(f'reference has no model for :{n}')


def match_compound(ctx, el, c, top_level):
    tag = c.get('tag')
    if tag is None and not (c.get('ids') or c.get('classes') or c.get('attrs') or c.get('ps')):
        tag = {'ns': None, 'name': '*'}     # an empty compound is rendered as an explicit `*`
    if not match_tag(ctx, el, tag, top_level):
        return False
    eid = None
    for i in c.get('ids', ()):
        if eid is None:
            eid = el_id(ctx, el)
        if i != eid:
            return False
    if c.get('classes'):
        have = el_classes(ctx, el)
        for k in c['classes']:
            if k not in have:
                return False
    for a in c.get('attrs', ()):
        if not match_attr(ctx, el, a):
            return False
    for p in c.get('ps', ()):
        if not match_pseudo(ctx, el, p):
            return False
    return True


def back_candidates(el, comb):
    if comb == '>':
        p = parent_elem(el)
        return [p] if p is not None else []
    if comb == ' ':
        out = []
        p = parent_elem(el)
        while p is not None:
            out.append(p)
            p = parent_elem(p)
        return out
    sibs = elem_siblings(el)
    idx = [i for i, s in enumerate(sibs) if s is el][0]
    if comb == '+':
        return [sibs[idx - 1]] if idx > 0 else []
    if comb == '~':
        return sibs[:idx]
    raise ValueError(comb)


def fwd_candidates(el, comb):
    if comb == '>':
        return elem_children(el)
    if comb == ' ' or comb is None:
        return elem_descendants(el)
    sibs = elem_siblings(el)
    idx = [i for i, s in enumerate(sibs) if s is el][0]
    if comb == '+':
        return sibs[idx + 1:idx + 2]
    if comb == '~':
        return sibs[idx + 1:]
    raise ValueError(comb)


def match_complex(ctx, el, cx, i, top_level):
    """Does `el` match compound i of cx with everything to its left satisfied?"""
    part = cx[i]
    if not match_compound(ctx, el, part['c'], top_level):
        return False
    if i == 0:
        return True
    for cand in back_candidates(el, part['comb']):
        if match_complex(ctx, cand, cx, i - 1, top_level):
            return True
    return False


def match_relative(ctx, anchor, cx, i):
    """:has() argument: exists a chain anchor -comb0-> x0 -comb1-> x1 ... matching all compounds."""
    part = cx[i]
    for cand in fwd_candidates(anchor, part['comb']):
        if match_compound(ctx, cand, part['c'], False):
            if i == len(cx) - 1 or match_relative(ctx, cand, cx, i + 1):
                return True
    return False


def match_list(ctx, el, sl, top_level=True):
    return any(match_complex(ctx, el, cx, len(cx) - 1, top_level) for cx in sl)


def select(sl, target, namespaces=None, custom=None):
    """Reference `select`: element descendants of target, in document order, that match."""
    ctx = Ctx(target, namespaces, custom)
    return [d for d in elem_descendants(target) if match_list(ctx, d, sl)]


def matches(sl, el, namespaces=None, custom=None, scope_target=None):
    ctx = Ctx(scope_target if scope_target is not None else el, namespaces, custom)
    return is_elem(el) and match_list(ctx, el, sl)
