"""E6 - deterministic thread scheduler.

Real threading.Thread objects; every 'line' (optionally 'opcode') event in a frame whose code lives in the
soupsieve package is a yield point at which the running thread may hand the baton to another thread.  Exactly one
thread runs at a time, so a run is a pure function of (operations, schedule).  Any interleaving produced this way
is one the interpreter could produce (line/opcode boundaries are bytecode boundaries), so a failure is real.
"""
from __future__ import annotations

import os
import sys
import threading

import soupsieve

PKG = os.path.realpath(os.path.dirname(soupsieve.__file__)) + os.sep


class Deadlock(Exception):
    pass


class Schedule:
    """Decides, at each yield point of the running thread, which thread runs next."""

    def start(self, nthreads):
        self.n = nthreads
        return 0

    def at_yield(self, tid, count, alive):
        return tid

    def at_finish(self, tid, alive):
        return min(alive)


class SinglePreemption(Schedule):
    """Thread 0 runs `point` yield points, then thread 1 (then 2, ...) runs to completion, then 0 resumes."""

    def __init__(self, point):
        self.point = point

    def at_yield(self, tid, count, alive):
        if tid == 0 and count == self.point and len(alive) > 1:
            return min(a for a in alive if a != 0)
        return tid

    def at_finish(self, tid, alive):
        others = [a for a in alive if a != 0]
        return min(others) if others else 0


class DoublePreemption(Schedule):
    """Thread 0 runs `i` yield points, thread 1 runs `j` yield points, thread 0 runs to completion, thread 1 finishes."""

    def __init__(self, i, j):
        self.i, self.j = i, j
        self.back = False

    def at_yield(self, tid, count, alive):
        if tid == 0 and count == self.i and 1 in alive and not self.back:
            return 1
        if tid == 1 and count == self.j and 0 in alive and not self.back:
            self.back = True
            return 0
        return tid

    def at_finish(self, tid, alive):
        self.back = True
        return min(alive)


class Bursts(Schedule):
    """Cyclic list of (thread, burst length): the named thread runs that many yield points, then the next entry."""

    def __init__(self, bursts, first=0):
        self.bursts = [(int(t), max(1, int(n))) for t, n in bursts] or [(0, 1)]
        self.first = first

    def start(self, nthreads):
        self.n = nthreads
        self.pos = 0
        self.left = self.bursts[0][1]
        return self.bursts[0][0] % nthreads

    def _advance(self, alive):
        for _ in range(len(self.bursts) + 1):
            self.pos = (self.pos + 1) % len(self.bursts)
            t = self.bursts[self.pos][0] % self.n
            if t in alive:
                self.left = self.bursts[self.pos][1]
                return t
        return min(alive)

    def at_yield(self, tid, count, alive):
        self.left -= 1
        if self.left > 0:
            return tid
        return self._advance(alive)

    def at_finish(self, tid, alive):
        return self._advance(alive)


class Priorities(Schedule):
    """PCT-style: run the highest-priority alive thread; at the given global steps lower the running thread's priority."""

    def __init__(self, prios, change_points):
        self.prios = list(prios)
        self.cps = sorted(set(change_points))

    def start(self, nthreads):
        self.n = nthreads
        self.steps = 0
        self.p = {t: self.prios[t % len(self.prios)] + t * 1e-3 for t in range(nthreads)}
        self.low = -1.0
        return max(self.p, key=lambda t: self.p[t])

    def at_yield(self, tid, count, alive):
        self.steps += 1
        if self.steps in self.cps:
            self.p[tid] = self.low
            self.low -= 1.0
        return max(alive, key=lambda t: self.p[t])

    def at_finish(self, tid, alive):
        return max(alive, key=lambda t: self.p[t])


class Runner:
    def __init__(self, thread_ops, schedule, opcode_files=(), timeout=30.0):
        self.ops = thread_ops                 # list (per thread) of callables
        self.schedule = schedule
        self.n = len(thread_ops)
        self.sems = [threading.Semaphore(0) for _ in range(self.n)]
        self.counts = [0] * self.n
        self.alive = set(range(self.n))
        self.results = [[] for _ in range(self.n)]
        self.switches = 0
        self.switches_inside = 0              # switches made while >= 2 threads were inside soupsieve frames
        self.inside = [0] * self.n
        self.opcode_files = tuple(opcode_files)
        self.timeout = timeout
        self.done = threading.Event()
        self.error = None

    # -- tracing
    def _global_trace(self, tid):
        def tracer(frame, event, arg):
            if event != 'call':
                return None
            fn = frame.f_code.co_filename
            if not fn.startswith(PKG):
                return None
            if self.opcode_files and fn.endswith(self.opcode_files):
                frame.f_trace_opcodes = True
            self.inside[tid] += 1

            def local(frame, event, arg):
                if event == 'line' or event == 'opcode':
                    self._yield(tid)
                elif event == 'return':
                    self.inside[tid] -= 1
                return local
            return local
        return tracer

    def _yield(self, tid):
        self.counts[tid] += 1
        nxt = self.schedule.at_yield(tid, self.counts[tid], self.alive)
        if nxt != tid and nxt in self.alive:
            self.switches += 1
            if sum(1 for t in self.alive if self.inside[t] > 0) >= 2:
                self.switches_inside += 1
            self.sems[nxt].release()
            if not self.sems[tid].acquire(timeout=self.timeout):
                self.error = f'thread {tid} was never rescheduled'
                raise Deadlock(self.error)

    def _run_thread(self, tid):
        if not self.sems[tid].acquire(timeout=self.timeout):
            self.error = f'thread {tid} never started'
            return
        sys.settrace(self._global_trace(tid))
        try:
            for op in self.ops[tid]:
                try:
                    self.results[tid].append(('ok', op()))
                except Deadlock:
                    raise
                except BaseException as e:  # noqa: B036
                    self.results[tid].append(('raise', type(e).__name__, str(e)[:200]))
        except Deadlock:
            pass
        finally:
            sys.settrace(None)
            self.alive.discard(tid)
            if self.alive:
                nxt = self.schedule.at_finish(tid, self.alive)
                if nxt not in self.alive:
                    nxt = min(self.alive)
                self.sems[nxt].release()
            else:
                self.done.set()

    def run(self):
        threads = [threading.Thread(target=self._run_thread, args=(t,), daemon=True) for t in range(self.n)]
        first = self.schedule.start(self.n)
        for t in threads:
            t.start()
        self.sems[first % self.n].release()
        if not self.done.wait(self.timeout):
            self.error = self.error or 'threads did not finish (baton lost)'
        for t in threads:
            t.join(0.5)
        if self.error:
            # unblock anything still waiting so that daemon threads can exit
            for s in self.sems:
                s.release()
            raise Deadlock(self.error)
        return self.results


def count_yield_points(op, opcode_files=()):
    """Run `op` alone under the tracer and count its yield points."""
    r = Runner([[op]], Schedule(), opcode_files)
    r.run()
    return r.counts[0], r.results[0][0]
