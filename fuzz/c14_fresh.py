"""C14 helper: run two library operations under one single pre-emption schedule as the *first* use of soupsieve in a
fresh interpreter (first-use state: nothing compiled, no memo warm), then - afterwards, sequentially, on a purged cache -
compute what each operation gives alone.  Input (JSON on stdin): {"a": selector, "b": selector, "point": k | null}.
Output (JSON): {"points": yield points of thread A, "got": [...], "alone": [...]}.  Run by props/c14.py."""
import json
import os
import sys
import warnings

sys.path.insert(0, os.path.dirname(os.path.dirname(os.path.abspath(__file__))))
from engine import common  # noqa: E402

sv = common.setup_path()
import bs4  # noqa: E402
from engine import sched  # noqa: E402

MARKUP = ('<html><body><form id="f"><input id="a" type="checkbox" checked><input id="b" type="radio" name="g">'
          '<input id="c" type="number" min="1" max="5" value="9" required><input id="d" disabled placeholder="p">'
          '<button id="e">x</button><textarea id="t" readonly></textarea><a id="l" href="u">l</a>'
          '<select id="s"><option id="o" selected>1</option></select></form></body></html>')


def op(soup, text):
    return lambda: [e.get('id') for e in sv.select(text, soup)]


def main():
    job = json.load(sys.stdin)
    soup = bs4.BeautifulSoup(MARKUP, 'html.parser')
    warnings.simplefilter('ignore')
    point = job.get('point')
    schedule = sched.SinglePreemption(point) if point else sched.Schedule()
    threads = [[op(soup, job['a'])]] + ([[op(soup, job['b'])]] if point else [])
    runner = sched.Runner(threads, schedule)
    results = runner.run()
    got = [list(r[0]) for r in results]
    # what each gives alone: afterwards, sequentially, nothing cached
    alone = []
    for text in ([job['a'], job['b']] if point else [job['a']]):
        sv.purge()
        try:
            alone.append(['ok', op(soup, text)()])
        except Exception as e:  # noqa: BLE001
            alone.append(['raise', type(e).__name__])
    # ... and what a later caller gets for the same text without purging (a poisoned cache entry would show here)
    json.dump({'points': runner.counts[0], 'got': got, 'alone': alone, 'switches': runner.switches}, sys.stdout)


main()
