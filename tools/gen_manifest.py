#!/usr/bin/env python3
"""Regenerate /verif/MANIFEST.json from the table below (kept in one place so it is always valid)."""
import json
import os

V = os.path.dirname(os.path.dirname(os.path.abspath(__file__)))

CHECKS = {
    'C01': dict(
        technique='property-based differential testing: witness-directed selector generation vs. a naive reference matcher, plus small-scope exhaustive enumeration',
        text='Generated (tree, selector) pairs over API-built and parser-built trees are compared, by element identity and order, with an independent naive interpreter of the selector AST; a bounded box of all forests <=4 elements x all selectors with <=1 (quick) / <=2 (thorough) combinators over a 12-compound alphabet is enumerated completely. Exploration, not proof: absence is only established inside the box.',
        note='Trusted: bs4/lxml/html5lib as installed, the ~400-line reference matcher (self-tested against hand-written expectations from the Selectors text at start-up), the renderer that turns the AST into selector text.',
        ref='DESIGN.md 3/C01'),
    'C02': dict(
        technique='bounded-exhaustive enumeration + property-based differential testing against a by-definition An+B oracle, with spelling metamorphics',
        text='Every (A,B) in a box x 4 pseudo-classes x 5 "of S" filters x every sibling sequence up to a bound x gap fillings x placements (inside an element, directly under the document, detached root) is compared with position-by-definition + divisibility; random cases reach |A|,|B| <= 10^6 and 30 siblings; every accepted spelling of each (A,B) is checked to mean (A,B). Exhaustive inside the stated box only.',
        note='Trusted: reference position/divisibility oracle (self-tested), bs4 tree navigation.',
        ref='DESIGN.md 3/C02'),
    'C06': dict(
        technique='property-based fuzzing with grammar-mutation and custom-map generators, plus coverage-guided fuzzing (atheris/libFuzzer) with the semantic oracle inside the target',
        text='Arbitrary Unicode strings, mutated valid selectors and custom maps (malformed, escaped, case-colliding, cyclic) are compiled; the oracle is the allowed exception set. Exploration over generated strings; says nothing about inputs beyond the nesting bound.',
        note='Trusted: the exception-classification oracle; NotImplementedError is accepted only when "@" or "::" occurs in the pattern or a custom definition; KeyError only when two custom names collide after lower-casing/un-escaping.',
        ref='DESIGN.md 3/C06'),
    'C07': dict(
        technique='fuzzing with a CPU-time oracle: pumped (prefix, unit^n, suffix) inputs, exhaustive over 1- and 2-token units, Hypothesis-drawn 3-token units, growth-law confirmation in a fresh worker',
        text='Empirical growth test with a x10^3 margin: a violation is an input of <= 80 characters that, confirmed in a fresh worker, costs > 0.5 s CPU and at least quadruples when its length doubles, or costs > 0.05 s and grows >= 64x on doubling and >= 6x over the last quarter. Covers compile(), every compiled regex reachable in the package, and the match side (attribute values). Not a complexity proof.',
        note='Trusted: time.process_time() of a single-threaded killable worker; token alphabet (hand list + literals extracted from every regex with re._parser).',
        ref='DESIGN.md 3/C07'),
    'C09': dict(
        technique='metamorphic property-based testing: lexical respelling of generated selector ASTs (all-sites and single-site delta cases) with structural + behavioural equality oracle',
        text='A valid full-grammar selector is rendered canonically and respelled at every lexical site the statement lists (whitespace/comments, escapes, quoting, letter case); both spellings must compile to equal .selectors and select the same elements of a witness document. Single-site delta cases name the rule and position of a failure.',
        note='Trusted: the renderer/respeller (it only emits spellings CSS Syntax defines as equivalent; An+B alternative forms are C02, not here); structural equality is soupsieve\'s own __eq__ on the IR.',
        ref='DESIGN.md 3/C09'),
    'C10': dict(
        technique='round-trip property-based testing: exhaustive code-point sweep + random strings through escape() and back through the selector parser, with an independent CSS un-escaper as differential',
        text='Every code point (thorough) in three positions plus random strings: "#"/"."/"[a=" + escape(s) must match exactly the element carrying s and no near miss; embedding contexts are judged by the reference matcher; an independent un-escaper maps escape(s) back to s.',
        note='Trusted: the 30-line independent un-escaper (self-tested), bs4 attribute storage.',
        ref='DESIGN.md 3/C10'),
    'C03': dict(
        technique='property-based differential testing of all six entry points (module-level and compiled) against the reference match relation, with argument-combination and limit generators',
        text='For generated (tree, selector, call target, limit, namespaces/flags/custom combination) every entry point is compared with the single reference relation M (scope = call target): select/iselect/select_one/limit, filter(tag), filter(iterable with strings, permuted), closest, match(document), and module-level == compiled method. Full-grammar selectors without a reference model are judged by identities between entry points.',
        note='Trusted: reference matcher (as C01), including :scope/& and custom aliases given as ASTs.',
        ref='DESIGN.md 3/C03'),
    'C05': dict(
        technique='metamorphic property-based testing: set-algebra laws over soupsieve\'s own answers for generated selector pairs from the whole grammar',
        text='Union, complement, intersection and alias laws for "A, B", :is, :where, :matches, :not and X:is(A), and the forgiving-slot law (an empty or dangling slot in :is()/:where() contributes nothing), are checked on generated pairs (half witness-directed so that both sides are non-empty) over 7 document flavours x 5 namespace maps. Self-consistency only: an error common to both sides of a law is invisible.',
        note='Trusted: nothing beyond set operations on element identities; universe for complements is sel("*") under the same namespace map.',
        ref='DESIGN.md 3/C05'),
    'C08': dict(
        technique='robustness fuzzing with structured generators: hostile trees x per-pseudo-class probe selectors x all entry points, oracle = no exception (TypeError only for non-Tag targets)',
        text='Hostile form soups (near-valid dates/weeks/numbers, arbitrary dir/lang/type), XML with unknown namespaces, detached fragments, multiple top-level nodes and odd-typed attribute values (None, numbers, bytes, tuples, nested lists) are queried with one probe per pseudo-class (plain and negated) plus random full-grammar selectors through all six entry points; detached single elements (extract(), new_tag) are call targets too; selectors with astronomically large An+B terms must finish within a traced step budget (termination without a clock); every call runs under a CPU-time interrupt, and a call that trips it is re-run under the line-event counter - only exceeding 3,000,000 traced steps is reported as non-termination.',
        note='Trusted: the generator keeps odd-typed values on attributes only attribute/class/id selectors read, as the statement scopes it.',
        ref='DESIGN.md 3/C08'),
    'C11': dict(
        technique='property-based differential testing: one logical recipe materialised as 7 document flavours, case-varied witness-directed selectors judged by the reference matcher under the documented case rule',
        text='The same recipe (mixed-case element/attribute names and values) is built as html.parser, lxml, html5lib, API-HTML with upper-case names, XHTML, lxml-xml and API-XML; selectors with independently case-varied names, values and i/s flags must select what the reference designates under the HTML vs XML rule; HTML-only pseudo-classes are probed on XML form documents and must select nothing. The document type used by the reference is cross-checked against the flavour requested.',
        note='Trusted: reference matcher case rules (ASCII folding), the flavour table (which kinds are XML / XHTML).',
        ref='DESIGN.md 3/C11'),
    'C12': dict(
        technique='property-based differential testing against a URI-comparing reference matcher, plus a prefix-renaming metamorphic relation',
        text='Generated namespace-aware documents (lxml-xml with declared/redeclared/undeclared namespaces, API-built XML with arbitrary (namespace, prefix) pairs and namespaced attributes, XHTML, html5lib svg/math/xlink) x prefix maps that agree/differ/collide/omit x every namespace selector form for elements and attributes, inside and outside :not/:is/:has; renaming every prefix in the document must change no answer.',
        note='Trusted: reference namespace rules (element/attribute URI read from bs4 .namespace), bs4 namespace bookkeeping.',
        ref='DESIGN.md 3/C12'),
    'C13': dict(
        technique='bounded-exhaustive enumeration of (range, tag) pairs through the public API against an own RFC 4647 implementation, plus property-based testing of language determination against a reference model',
        text='All ranges x tags over a 9-subtag alphabet up to 4 subtags (thorough: 34.5 M pairs; quick: a stride) plus random subtags and multi-range lists are evaluated by select(:lang(...)) on a document carrying every tag; generated HTML/XHTML/XML documents with lang/xml:lang at drawn depths, meta pragmas and iframes are judged by an independent language-determination model.',
        note='Trusted: the 20-line RFC 4647 3.3.2 matcher (self-tested on the RFC examples), the language-determination reference.',
        ref='DESIGN.md 3/C13'),
    'C17': dict(
        technique='property-based testing with three oracles: partition laws over soupsieve\'s own answers, reference definitions of each state pseudo-class, and an iframe-isolation metamorphic relation',
        text='Generated HTML form documents under four HTML tree builders are checked against the partition laws the statement lists, against per-pseudo-class reference definitions (:disabled incl. fieldset/first-legend/optgroup, :default first submit per form, :indeterminate radio groups per form/document, :placeholder-shown, :read-write, ranges, explicit/inherited dir) and against iframe isolation.',
        note='Trusted: engine/ref_html.py (self-tested on a hand-written form), ref_range for range states; form-in-form trees are excluded from :default/:indeterminate definitions; range inputs affected by the open C18 finding are excluded and counted.',
        ref='DESIGN.md 3/C17'),
    'C18': dict(
        technique='bounded-exhaustive validity sweep + property-based (min,max,value) triples against an independent calendar/number oracle, with an executable defect model for the open finding',
        text='Every year of the tier\'s set x boundary weeks/months/days/hours/minutes is observed through :in-range/:out-of-range by construction; random boundary-biased triples per input type check ordering, wrapped time ranges and invalid values. The open week-53 finding is attributed only when the implementation\'s answer equals the answer of the oracle with the defect model; any other deviation is a violation.',
        note='Trusted: calendar.monthrange/date.isocalendar on the 400-year cycle, own microsyntax parsers; numbers with exponents are out of domain.',
        ref='DESIGN.md 3/C18'),
    'C19': dict(
        technique='property-based differential testing against a reference text model, with needles derived from the tree and respelled quoting/escapes',
        text='Trees with arbitrary interleavings of text/comment/CDATA/PI/doctype/declaration/element nodes (API-built and parsed, HTML with iframes, XML) are queried with :-soup-contains, :-soup-contains-own, :contains (FutureWarning required) and :empty using needles that span node boundaries, occur only in non-text nodes or inside iframes, are empty or contain quotes/backslashes/newlines.',
        note='Trusted: the reference text model (is_text = NavigableString that is not Comment/CData/PI/Declaration/Doctype), the respeller for needle quoting.',
        ref='DESIGN.md 3/C19'),
    'C04': dict(
        technique='stateful (rule-based state machine) property-based testing with history invariants: select vs per-element match, pristine-copy differential, no-mutation snapshot',
        text='Hypothesis RuleBasedStateMachine over one generated form document: rules issue select/iselect/select_one/match/filter/closest calls with memoising selectors (:lang via meta, :default, :indeterminate, :dir) on drawn targets; after every step the answer must equal per-element match, the answer on a pristine copy with a purged cache, filter(tag) must equal filter(list) in any order, and the tree snapshot must be unchanged.',
        note='Trusted: soupsieve answers are compared with each other across histories (no reference model here; C13/C17 supply those); snapshot = serialisation + attribute reprs + node identities.',
        ref='DESIGN.md 3/C04'),
    'C14': dict(
        technique='schedule-owning concurrency testing: deterministic thread scheduler over line/opcode yield points, exhaustive single pre-emption + Hypothesis-drawn burst/PCT schedules, linearizability-style oracle (each outcome equals its solo outcome)',
        text='Real threads, one running at a time, yield points at every traced line (thorough: opcode in css_parser.py) inside soupsieve. Every single pre-emption of every ordered pair of compile operations from the pool is enumerated; mixed compile/purge/select/match/filter/closest workloads on 2-4 threads run under drawn burst and priority schedules. Operations at the interpreter limits (4400-digit An+B coefficient, 4400-digit years) are in the pools with all their single pre-emptions; operations that must miss the name memo run against a memo filled to capacity (opcode granularity in util.py); for 20 pseudo-classes, pre-empted pairs of selects run as the first use of the library in a fresh interpreter. Outcomes must equal solo outcomes; no poisoned cache entry may remain; the interpreter-wide int-digit and recursion limits must be unchanged after every run.',
        note='Trusted: C-level atomicity of lru_cache/re; only interleavings at traced boundaries are explored; >= 2 pre-emptions are sampled.',
        ref='DESIGN.md 3/C14'),
    'C15': dict(
        technique='property-based testing of value semantics (mutation attacks, equality/hash relation, pickle/copy round trips) plus a stateful rule-based machine over compile/purge histories against fresh-parse references',
        text='Every object reachable from a compiled selector is attacked through its public interface and must stay equal to a fresh parse; == must coincide with equality of (pattern, namespaces, custom, flags) on generated near-collision pairs, including keys that differ in argument type only (bool/int flags, str subclasses), and equal objects must hash equal; pickle/copy/deepcopy must round-trip, also for pickles written by another interpreter process with its own string-hash seed; a state machine interleaves compile(key), compile_many(up to 700 patterns), purge and compile(compiled[, extra]) and checks transparency and the cache bound.',
        note='Trusted: cache size is observed through functools.lru_cache.cache_info() of the cached compile function; private attributes are not attacked.',
        ref='DESIGN.md 3/C15'),
    'C16': dict(
        technique='generated-program testing: enumerated/drawn import-statement sequences, each run in a fresh interpreter, differential against the soupsieve-first reference program',
        text='All import sequences up to length 2 (quick) / 3 (thorough) over 14 import forms of bs4, soupsieve and their submodules (incl. the two star imports), plus drawn longer ones, run as python -c programs; each must exit 0, print exactly the reference JSON line, agree between bs4.select and soupsieve.select, leave stderr empty and record no warning from the soupsieve package.',
        note='Trusted: /venv/bin/python with PYTHONPATH pointing at the repository under test.',
        ref='DESIGN.md 3/C16'),
    'C20': dict(
        technique='bounded-exhaustive sweep of (pattern, offset) pairs + property-based testing of parser-raised errors, DEBUG differential and pretty-printer round trip under a traced step budget',
        text='Every pattern over 7 symbols (incl. three line-break styles) up to length 5/7 x every offset is checked against line/column/context by definition; mutated multi-line selectors must raise errors whose location matches the reported position; DEBUG must not change structure or selection of valid selectors nor the exception type, message and location of invalid ones (one or two mistakes per pattern); pretty() must finish within a step budget counted by sys.settrace (and must not burn 20 s of CPU inside one C-level call) and equal repr up to whitespace; selectors include attribute values long enough to overflow the 200 characters re.Pattern.__repr__ shows.',
        note='Trusted: the line/column oracle (self-evident), stdout capture; termination is judged by a step count, never by a clock.',
        ref='DESIGN.md 3/C20'),
}

NOT_APPLICABLE = []


def main():
    checks = []
    for pid in sorted(CHECKS):
        c = CHECKS[pid]
        checks.append({
            'property_id': pid,
            'quick_cmd': f'/venv/bin/python check.py {pid} --tier quick',
            'thorough_cmd': f'/venv/bin/python check.py {pid} --tier thorough',
            'evidence_file': f'/verif/evidence/{pid}.json',
            'replay_cmd_template': f'/venv/bin/python check.py {pid} --replay {{path}}',
            'engine': 'pbt-runner',
            'level_claimed': {'category': 'exploration', 'text': c['text'], 'design_ref': c['ref']},
            'level_note': c['note'],
            'technique': c['technique'],
        })
    m = {
        'version': 1,
        'setup_cmd': '/venv/bin/python tools/setup.py',
        'hooks': {
            'guard': 'SOUPSIEVE_VERIF',
            'enable': 'no hooks: all observation is through the public API, sys.settrace and process CPU time; the guard variable is never read by /repo',
            'baseline_off_cmd': 'cd /repo && /venv/bin/python -m pytest -q -p no:cacheprovider',
            'source_commits': [],
            'add_only': True,
        },
        'engines': [
            {'name': 'pbt-runner', 'path': 'check.py', 'serves_properties': sorted(CHECKS),
             'kind_free_text': 'Hypothesis-driven choice-sequence generators (engine/choose.py), tree recipes + materialisers (engine/trees.py), selector AST/renderer (engine/selast.py), reference matcher (engine/refmatch.py), witness-directed generation (engine/witness.py), sharded collect-then-shrink runner (engine/common.py)'},
        ],
        'checks': checks,
        'not_applicable': NOT_APPLICABLE,
        'notes': 'Checks import soupsieve from /repo working tree (VERIF_REPO overrides for sensitivity runs against scratch worktrees). Exit 0 held / 1 VIOLATION / 2 harness error. known_findings.json lists open findings (KNOWN-FINDING lines) and fixed: entries.',
    }
    with open(os.path.join(V, 'MANIFEST.json'), 'w') as f:
        json.dump(m, f, indent=1)
        f.write('\n')


if __name__ == '__main__':
    main()
