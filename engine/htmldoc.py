"""HTML-ish document recipes rich in what the HTML-only pseudo-classes inspect: forms, fieldsets/legends,
controls, radio groups, iframes, svg/math islands, lang/dir, <meta http-equiv=content-language>, bidi text.
Pure functions of a Chooser.  Used by C03, C04, C05, C08, C09, C17.
"""
from __future__ import annotations

from .trees import E, T, C, NS_XHTML, NS_SVG

INPUT_TYPES = ('text', 'checkbox', 'radio', 'submit', 'hidden', 'number', 'range', 'date', 'month', 'week', 'time',
               'datetime-local', 'search', 'url', 'tel', 'email', 'password', 'TEXT', 'Radio', 'CHECKBOX', 'Submit',
               'bogus', '')
NAMES = ('g1', 'g2', '', 'G1')
RTL = 'אבג'
ARABIC = 'ابت'
TEXTS = ('', ' ', '\n', 'x', 'hello', RTL, ARABIC, '123 ' + RTL, 'a ' + RTL, ' \t\n', '\n\n', '&')
RANGE_VALUES = {
    'number': ('0', '5', '10', '-1', '3.5', '.5', '1e3', '1.', 'abc', '', '-', '+1', '007', '-0'),
    'range': ('0', '5', '10', '-1', '3.5', 'x', ''),
    'date': ('2020-02-29', '2021-02-29', '2020-01-01', '2020-13-01', '0999-01-01', '10000-01-01', '2020-1-01', '',
             '0000-01-01', '2020-04-31', '2020-12-31', '275760-09-13'),
    'month': ('2020-01', '2020-13', '2020-00', '0001-01', '10000-12', '2020-1', ''),
    'week': ('2020-W01', '2020-W53', '2021-W53', '2020-W54', '2020-W00', '0999-W01', '10000-W01', '2020-W1', '',
             '1980-W53', '2015-W53'),
    # the same minute with and without a seconds part (HTML allows `HH:MM:SS`; whatever a matcher makes of it, it must
    # not fall over when only one of value and bound carries seconds)
    'time': ('00:00', '23:59', '24:00', '12:60', '09:30', '9:30', '', '12:30:15', '12:30', '09:30:00', '09:30:59', '23:59:60'),
    'datetime-local': ('2020-02-29T12:00', '2021-02-29T12:00', '2020-01-01T24:00', '2020-01-01 12:00', '',
                       '2020-01-01T00:00', '10000-01-01T00:00', '2020-01-01T00:00:15', '2020-02-29T12:00:00'),
}
HUGE = '9' * 4400
for _t, _v in (('date', HUGE + '-01-01'), ('month', HUGE + '-01'), ('week', HUGE + '-W01'), ('datetime-local', HUGE + '-01-01T00:00'),
               ('number', HUGE), ('number', '-' + HUGE + '.5'), ('range', HUGE)):
    RANGE_VALUES[_t] = RANGE_VALUES[_t] + (_v,)
ARBITRARY = ('', ' ', 'x', 'ltr', 'rtl', 'auto', 'AUTO', 'LTR', 'true', 'false', 'TRUE', '0', '-', 'é', '\n', 'a b',
             'en', 'de-DE', 'xx-', '-x', '*', 'content-language', 'Content-Language')


def pick_value(ch, pool, hostile):
    r = ch.i(0, 9)
    if hostile and r <= 2:
        return ch.pick(ARBITRARY) if r else ch.text(6, exclude='\x00')
    return ch.pick(pool)


def control(ch, cfg, ns):
    hostile = cfg.get('hostile', False)
    kind = ch.weighted([(8, 'input'), (2, 'button'), (2, 'select'), (2, 'textarea'), (1, 'progress'), (1, 'meter'),
                        (1, 'a'), (1, 'area'), (1, 'optgroup'), (1, 'option')])
    attrs = {}
    ch_nodes = []
    if kind == 'input':
        if ch.p(0.85):
            attrs['type'] = pick_value(ch, INPUT_TYPES, hostile)
            if ch.p(0.12) and isinstance(attrs['type'], str):
                # type keywords are ASCII case-insensitive whatever the type (range types included)
                v = attrs['type']
                attrs['type'] = ch.pick((v.upper(), v.capitalize(), v.swapcase(), v[:1] + v[1:].upper()))
        t = (attrs.get('type') or '').lower()
        if t in ('radio', 'checkbox') or ch.p(0.2):
            if ch.p(0.8):
                attrs['name'] = pick_value(ch, NAMES, hostile)
            if ch.p(0.35):
                attrs['checked'] = ch.pick(('', 'checked'))
            if t == 'checkbox' and ch.p(0.3):
                attrs['indeterminate'] = ''
        if t in RANGE_VALUES or ch.p(0.1):
            pool = RANGE_VALUES.get(t, RANGE_VALUES['number'])
            for a in ('min', 'max', 'value'):
                if ch.p(0.6):
                    attrs[a] = pick_value(ch, pool, hostile)
            if 'value' in attrs and ch.p(0.25):
                # a value sitting exactly on one of its bounds (the edge of in-range, for plain and for reversed ranges)
                attrs['value'] = attrs.get(ch.pick(('min', 'max')), attrs['value'])
        if ch.p(0.2):
            attrs['placeholder'] = pick_value(ch, ('', 'hint', ' '), hostile)
        if ch.p(0.15) and 'value' not in attrs:
            attrs['value'] = pick_value(ch, ('', 'v', RTL, 'a' + ARABIC), hostile)
    elif kind == 'button':
        if ch.p(0.7):
            attrs['type'] = pick_value(ch, ('submit', 'button', 'reset', 'SUBMIT', '', 'bogus'), hostile)
        ch_nodes.append(T(ch.pick(TEXTS)))
    elif kind == 'select':
        for _ in range(ch.i(0, 3)):
            o = E('option', {'selected': ''} if ch.p(0.3) else {}, [T('o')], ns=ns)
            if ch.p(0.3):
                o['attrs'].append([None, None, 'disabled', ''])
            if ch.p(0.3):
                o = E('optgroup', {'disabled': ''} if ch.p(0.5) else {}, [o], ns=ns)
            ch_nodes.append(o)
    elif kind == 'textarea':
        if ch.p(0.5):
            attrs['placeholder'] = pick_value(ch, ('', 'hint'), hostile)
        ch_nodes.append(T(ch.pick(('', '\n', ' ', 'x', RTL, '\n\n'))))
        if ch.p(0.25):
            # content wrapped in (or split by) child elements and comments: html.parser keeps markup inside a textarea
            # as elements, and any tree can be assembled that way through the API
            for _ in range(ch.i(1, 2)):
                r = ch.i(0, 3)
                if r == 0:
                    ch_nodes.append(E('b', {}, [T(ch.pick(('hi', '', '\n', ' ')))], ns=ns))
                elif r == 1:
                    ch_nodes.append(E('span', {}, [E('i', {}, [T(ch.pick(('deep', '')))], ns=ns)], ns=ns))
                elif r == 2:
                    ch_nodes.append(C('note'))
                else:
                    ch_nodes.append(T(ch.pick(('', '\n', 'y'))))
    elif kind in ('progress', 'meter'):
        if ch.p(0.5):
            attrs['value'] = pick_value(ch, ('0.5', '', 'x'), hostile)
    elif kind in ('a', 'area'):
        if ch.p(0.7):
            attrs['href'] = pick_value(ch, ('', '#', 'http://x'), hostile)
        if kind == 'a':
            ch_nodes.append(T('link'))
    elif kind == 'optgroup':
        if ch.p(0.5):
            attrs['disabled'] = ''
        ch_nodes.append(E('option', {}, [T('o')], ns=ns))
    elif kind == 'option':
        if ch.p(0.4):
            attrs['selected'] = ''
    for a, prob in (('disabled', 0.15), ('readonly', 0.15), ('required', 0.2)):
        if ch.p(prob):
            attrs[a] = ch.pick(('', a))
    common_attrs(ch, attrs, cfg)
    return E(kind, attrs, ch_nodes, ns=ns)


def common_attrs(ch, attrs, cfg):
    hostile = cfg.get('hostile', False)
    if ch.p(0.12):
        attrs['dir'] = pick_value(ch, ('ltr', 'rtl', 'auto', 'RTL', 'Auto', '', 'bogus'), hostile)
    if ch.p(0.12):
        attrs['lang'] = pick_value(ch, ('en', 'de', 'de-DE', '', 'en-US', 'DE-ch-1996', 'x-a-b'), hostile)
    if ch.p(0.08):
        attrs['contenteditable'] = pick_value(ch, ('', 'true', 'false', 'TRUE', 'plaintext-only'), hostile)
    if ch.p(0.15):
        attrs['id'] = ch.pick(('i1', 'i2', 'i3', 'x'))
    if ch.p(0.15):
        attrs['class'] = [ch.pick(('k', 'm', 'K'))]
    if ch.p(0.08):
        attrs['title'] = pick_value(ch, ('abc', 'a', 'b c', 'x-y', ''), hostile)


def block(ch, cfg, depth, ns, in_form=False):
    """A list of body-level nodes."""
    out = []
    for _ in range(ch.i(1, 4 if depth > 1 else 3)):
        r = ch.weighted([(6, 'control'), (3, 'div'), (3, 'form'), (3, 'fieldset'), (1, 'iframe'), (1, 'svg'),
                         (2, 'text'), (1, 'comment'), (1, 'bdi'), (1, 'custom'), (1, 'p'), (1, 'bidi-nest')])
        if depth <= 0 and r in ('div', 'form', 'fieldset', 'iframe', 'svg'):
            r = 'control'
        if r == 'control':
            out.append(control(ch, cfg, ns))
        elif r in ('div', 'p', 'bdi', 'custom'):
            name = {'custom': ch.pick(('my-el', 'x-y-z')), 'div': ch.pick(('div', 'span', 'section'))}.get(r, r)
            attrs = {}
            common_attrs(ch, attrs, cfg)
            out.append(E(name, attrs, block(ch, cfg, depth - 1, ns, in_form), ns=ns))
        elif r == 'form':
            if in_form and not cfg.get('nested_forms', False):
                out.append(control(ch, cfg, ns))
                continue
            attrs = {}
            common_attrs(ch, attrs, cfg)
            out.append(E('form', attrs, block(ch, cfg, depth - 1, ns, True), ns=ns))
        elif r == 'fieldset':
            attrs = {'disabled': ''} if ch.p(0.5) else {}
            kids = block(ch, cfg, depth - 1, ns, in_form)
            for _ in range(ch.i(0, 2)):
                leg = E('legend', {}, [control(ch, cfg, ns)] if ch.p(0.7) else [T('legend')], ns=ns)
                kids.insert(ch.i(0, len(kids)), leg)
            out.append(E('fieldset', attrs, kids, ns=ns))
        elif r == 'iframe':
            if cfg.get('iframes', True):
                inner = E('html', {'lang': ch.pick(('fr', ''))} if ch.p(0.3) else {}, [
                    E('body', {}, block(ch, cfg, depth - 1, ns, False), ns=ns)], ns=ns)
                rooted = ch.p(0.6) or cfg.get('iframe_rooted', False)
                out.append(E('iframe', {}, [inner] if rooted else block(ch, cfg, depth - 1, ns, False), ns=ns))
            else:
                out.append(control(ch, cfg, ns))
        elif r == 'svg':
            sns = NS_SVG if ns is not None else None
            kids = [E('circle', {'id': 'c'}, [], ns=sns), E('a', {'href': '#'}, [T('s')], ns=sns)]
            if ch.p(0.4):
                # camelCase SVG names: html5lib stores them with their capitals inside an HTML document
                kids.append(E(ch.pick(('foreignObject', 'clipPath', 'linearGradient')), {}, [T('f')] if ch.p(0.5) else [], ns=sns))
            out.append(E('svg', {}, kids, ns=sns))
        elif r == 'bidi-nest':
            # an element that takes its direction from its text, holding a descendant with a `dir` of its own (valid,
            # `auto` in any case, or bogus) whose text comes first and runs the other way
            first = ch.pick((RTL, ARABIC, 'latin', '123'))
            inner = E(ch.pick(('span', 'b', 'p', 'bdi')), {'dir': ch.pick(('auto', 'AUTO', 'Auto', 'rtl', 'ltr', 'bogus', ''))} if ch.p(0.85) else {},
                      [T(first)], ns=ns)
            tail = [T(ch.pick(('latin', RTL, ' ', '42 ' + ARABIC)))] if ch.p(0.8) else []
            out.append(E(ch.pick(('div', 'bdi', 'p')), {'dir': ch.pick(('auto', 'AUTO'))} if ch.p(0.8) else {}, [inner] + tail, ns=ns))
        elif r == 'text':
            out.append(T(ch.pick(TEXTS)))
        else:
            out.append(C('c'))
    if out and ch.p(0.12):
        import copy
        dup = [n for n in out if n['k'] == 'e']
        if dup:
            out.append(copy.deepcopy(ch.pick(dup)))   # an identical twin of a sibling subtree
    return out


def memo_block(ch, ns):
    """Forms with several radio groups and submit buttons: what the per-query memo tables are keyed on."""
    out = []
    for _ in range(ch.i(1, 3)):
        kids = []
        for _ in range(ch.i(2, 7)):
            r = ch.i(0, 9)
            if r <= 5:
                attrs = {'type': ch.pick(('radio', 'radio', 'Radio')), 'name': ch.pick(('g1', 'g2', 'g3'))}
                if ch.p(0.25):
                    attrs['checked'] = ''
                kids.append(E('input', attrs, [], ns=ns))
            elif r <= 7:
                kids.append(E(ch.pick(('button', 'input')), {'type': ch.pick(('submit', 'Submit', 'button'))}, [], ns=ns))
            elif r == 8:
                kids.append(E('div', {'lang': ch.pick(('en', '', 'de'))} if ch.p(0.5) else {}, [
                    E('input', {'type': 'radio', 'name': ch.pick(('g1', 'g2'))}, [], ns=ns)], ns=ns))
            else:
                kids.append(T('x'))
        if ch.p(0.3):
            # an embedded document inside the form, holding controls that must not take part in the outer form's
            # groups; deliberately the *last* child of its wrapper, with nothing (not even whitespace) after it
            inner = [E(ch.pick(('button', 'input')), {'type': 'submit'}, [], ns=ns),
                     E('input', {'type': 'radio', 'name': ch.pick(('g1', 'g2')), 'checked': ''}, [], ns=ns)]
            if ch.p(0.5):
                inner.reverse()
            frame = E('iframe', {}, [E('html', {}, [E('body', {}, inner, ns=ns)], ns=ns)], ns=ns)
            wrapped = E('div', {}, [frame], ns=ns) if ch.p(0.6) else frame
            kids.insert(ch.i(0, len(kids)), wrapped)
        node = E('form', {}, kids, ns=ns) if ch.p(0.8) else E('div', {}, kids, ns=ns)
        out.append(node)
    if ch.p(0.5):
        # byte-for-byte identical siblings (repeated "add to cart" forms): equal as values, distinct as nodes
        import copy
        out.insert(ch.i(0, len(out)), copy.deepcopy(ch.pick(out)))
    return out


HTML_KINDS = ('html.parser', 'lxml', 'html5lib', 'html-api')


def gen_html_doc(ch, kinds=HTML_KINDS + ('xhtml', 'lxml-xml', 'xml-api'), depth=3, **cfg):
    """Return (recipe, flavour). flavour is the logical kind incl. 'xhtml'."""
    flavour = ch.pick(kinds)
    kind = 'lxml-xml' if flavour == 'xhtml' else flavour
    ns = NS_XHTML if flavour == 'xhtml' else None
    if kind in ('html.parser', 'html-api') and cfg.get('nested_forms') is None:
        cfg['nested_forms'] = False
    body = block(ch, cfg, depth, ns)
    if cfg.get('memo_rich') and ch.p(0.7):
        body = memo_block(ch, ns) + body
    head = []
    if ch.p(0.4):
        for _ in range(ch.i(1, 2)):
            attrs = {}
            if ch.p(0.85):
                attrs['http-equiv'] = ch.pick(('content-language', 'Content-Language', 'refresh', 'CONTENT-LANGUAGE'))
            if ch.p(0.85):
                attrs['content'] = ch.pick(('en', 'de-DE', '', 'fr', 'x'))
            head.append(E('meta', attrs, [], ns=ns))
    if ch.p(0.5):
        head.insert(ch.i(0, len(head)), E('title', {}, [T('t')], ns=ns))
    hattrs = {}
    if ch.p(0.3):
        hattrs['lang'] = ch.pick(('en', 'de', '', 'en-GB'))
    if ch.p(0.15):
        hattrs['dir'] = ch.pick(('ltr', 'rtl', 'auto'))
    if flavour in ('lxml-xml', 'xml-api') and ch.p(0.5):
        top = [E('root', hattrs, body)]
    else:
        top = [E('html', hattrs, [E('head', {}, head, ns=ns), E('body', {}, body, ns=ns)], ns=ns)]
    if kind in ('html.parser', 'html-api') and cfg.get('fragment') and ch.p(cfg['fragment']):
        # a fragment: several top-level elements directly under the BeautifulSoup object (html.parser keeps them so)
        top = [n for n in body if n['k'] == 'e'] or top
        if ch.p(0.5):
            top = [E('p', hattrs, [T('first')])] + top
    if kind in ('html.parser', 'lxml', 'html5lib') and ch.p(0.3):
        top.insert(0, {'k': 'dt', 's': 'html'})
    if ch.p(0.6):
        # attribute order is arbitrary in real markup (`<input checked type=radio name=g>`)
        def shuffle(node):
            if node['k'] == 'e':
                at = node['attrs']
                for i in range(len(at) - 1, 0, -1):
                    j = ch.i(0, i)
                    at[i], at[j] = at[j], at[i]
                for c in node['ch']:
                    shuffle(c)
        for n in top:
            shuffle(n)
    return {'kind': kind, 'top': top, 'detach': None}, flavour


# A fixed witness document for metamorphic checks that need "some" elements to select (C09, C15, C20)
WITNESS_RECIPE = {'kind': 'html5lib', 'detach': None, 'top': [
    {'k': 'dt', 's': 'html'},
    E('html', {'lang': 'en'}, [
        E('head', {}, [E('meta', {'http-equiv': 'content-language', 'content': 'de-DE'}), E('title', {}, [T('t')])]),
        E('body', {}, [
            E('div', {'id': 'i1', 'class': ['k', 'm'], 'title': 'abc'}, [
                E('p', {'id': 'i2', 'lang': 'de-DE', 'class': ['K']}, [T('x y'), E('a', {'href': '#', 'id': 'x'}, [T('abc')]),
                                                                      E('span', {'dir': 'rtl'}, [T(RTL)])]),
                E('p', {'id': 'i3', 'title': 'b c', 'data-x': 'x-y'}, [T("it's a\"b"), C('c'), E('b', {}, [T('a')])]),
                T('\n'),
                E('ul', {}, [E('li', {'class': ['k']}, [T('a')]), E('li', {}, [T('é')]), E('li', {'class': ['m']}, []),
                             E('li', {}, [T('a\\b')])]),
            ]),
            E('form', {'id': 'f'}, [
                E('fieldset', {'disabled': ''}, [E('legend', {}, [E('input', {'type': 'text', 'name': 'a'})]),
                                                 E('input', {'type': 'checkbox', 'checked': '', 'name': 'b'}),
                                                 E('select', {'required': ''}, [E('optgroup', {'disabled': ''}, [
                                                     E('option', {'selected': ''}, [T('o')])])])]),
                E('input', {'type': 'radio', 'name': 'g1'}), E('input', {'type': 'radio', 'name': 'g1'}),
                E('input', {'type': 'radio', 'name': 'g2', 'checked': ''}),
                E('input', {'type': 'number', 'min': '0', 'max': '10', 'value': '5'}),
                E('input', {'type': 'number', 'min': '0', 'max': '10', 'value': '15'}),
                E('input', {'type': 'text', 'placeholder': 'hint', 'dir': 'auto', 'value': ARABIC}),
                E('textarea', {'readonly': ''}, [T('x')]),
                E('button', {'type': 'submit'}, [T('go')]), E('input', {'type': 'submit'}),
                E('progress', {}), E('my-el', {}, [T('custom')]),
            ]),
            E('svg', {}, [E('circle', {'id': 'c'}), E('a', {'href': '#s'}, [T('s')])]),
            E('iframe', {}, [T('<html><body><p>in</p></body></html>')]),
        ]),
    ]),
]}
