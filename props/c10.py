"""C10 - escape() output always parses back to the original identifier (round trip through the parser)."""
from __future__ import annotations

import time

import soupsieve as sv
from bs4 import BeautifulSoup

from engine import choose, common, refmatch as R, selast as S, trees

ID = 'C10'
BUDGET = {'quick': 50, 'thorough': 900}
META = {
    'rule': 'strings: (a) every single code point U+0001-U+10FFFF (incl. surrogates; quick: all below U+3000 and '
            'every 61st above) in three positions - first, after a leading "-", interior - plus NUL forms; '
            '(b) random strings of 1-40 characters biased to "-", digits, controls, C1 controls, DEL, surrogates, '
            'astral, CSS metacharacters; (c) embedding contexts (complex selectors around the escaped identifier) '
            'judged by the reference matcher. Oracle: "#"+escape(s), "."+escape(s), "[a="+escape(s)+"]" match exactly '
            'the element whose id/class/attribute equals s (NUL -> U+FFFD) and not near misses; an independent CSS '
            'un-escaper maps escape(s) back to s. Non-trivial: s contains a character escape() must transform or a '
            'non-ASCII character; distinct by string',
    'assumptions': ['the empty string is outside the domain (an identifier is non-empty)'],
}

HEX = '0123456789abcdefABCDEF'
CSS_WS = ' \t\n\r\f'
_soup = BeautifulSoup('', 'html.parser')


def css_unescape_ident(text):
    """Independent CSS 'consume an escaped code point' over an identifier token."""
    out = []
    i, n = 0, len(text)
    while i < n:
        c = text[i]
        if c != '\\':
            out.append(c)
            i += 1
            continue
        i += 1
        if i >= n:
            out.append('\ufffd')
            break
        if text[i] in HEX:
            j = i
            while j < n and j - i < 6 and text[j] in HEX:
                j += 1
            cp = int(text[i:j], 16)
            if j < n and text[j] in CSS_WS:
                if text[j] == '\r' and j + 1 < n and text[j + 1] == '\n':
                    j += 1
                j += 1
            out.append('\ufffd' if cp == 0 or cp > 0x10ffff else chr(cp))
            i = j
        else:
            out.append(text[i])
            i += 1
    return ''.join(out)


def needs_transform(s):
    for i, c in enumerate(s):
        o = ord(c)
        if o >= 0x80 or not (c.isalnum() or c in '-_') or (c.isdigit() and (i == 0 or (i == 1 and s[0] == '-'))):
            return True
    return s == '-'


def check_string(s):
    """Return None or (bucket, detail)."""
    try:
        e = sv.escape(s)
    except Exception as ex:  # noqa: BLE001
        return ('escape-raises-' + type(ex).__name__, f'escape({s!r}) raised {ex!r}')
    want = s.replace('\x00', '\ufffd')
    un = css_unescape_ident(e)
    if un != want:
        return ('unescape-differs', f'escape({s!r}) = {e!r} un-escapes to {un!r}, expected {want!r}')
    good = _soup.new_tag('p', attrs={'id': want, 'class': [want, 'zz'], 'a': want})
    near = _soup.new_tag('p', attrs={'id': want + 'x', 'class': [want + 'x', 'x' + want], 'a': want + 'x'})
    near2 = _soup.new_tag('p', attrs={'id': 'x' + want, 'class': [want[:-1] or 'zz'], 'a': want[:-1]})
    for form, sel in (('id', '#' + e), ('class', '.' + e), ('attr', '[a=' + e + ']')):
        try:
            comp = sv.compile(sel)
            g, n1, n2 = comp.match(good), comp.match(near), comp.match(near2)
        except Exception as ex:  # noqa: BLE001
            return (f'{form}-selector-rejected', f'{sel!r} built from escape({s!r}): {type(ex).__name__}: {str(ex)[:200]}')
        if not g:
            return (f'{form}-does-not-match', f'{sel!r} (escape({s!r})) does not match the element whose {form} is {want!r}')
        if n1 or n2:
            return (f'{form}-matches-near-miss', f'{sel!r} (escape({s!r})) matches a near miss')
    return None


CONTEXTS = (
    ('div > #{} + span', lambda v: [S.cx(S.compound('div'), '>', S.compound(None, ids=[v]), '+', S.compound('span'))]),
    ('.{}.k', lambda v: [S.cx(S.compound(None, classes=[v, 'k']))]),
    ('p[a={}], b', lambda v: [S.cx(S.compound('p', attrs=[{'ns': None, 'name': 'a', 'op': '=', 'val': v, 'flag': None}])),
                              S.cx(S.compound('b'))]),
    (':not(#{}) > b', lambda v: [S.cx(S.compound(None, ps=[{'p': 'not', 'args': [S.cx(S.compound(None, ids=[v]))]}]),
                                      '>', S.compound('b'))]),
    ('{}, span', lambda v: [S.cx(S.compound(v)), S.cx(S.compound('span'))]),
    (':is(.{}, #{}) b', lambda v: [S.cx(S.compound(None, ps=[{'p': 'is', 'args': [S.cx(S.compound(None, classes=[v])),
                                                                                 S.cx(S.compound(None, ids=[v]))]}]),
                                       ' ', S.compound('b'))]),
)


def check_context(s, ci):
    want = s.replace('\x00', '\ufffd')
    tmpl, mk = CONTEXTS[ci]
    e = sv.escape(s)
    text = tmpl.replace('{}', e)
    recipe = {'kind': 'xml-api', 'detach': None, 'top': [trees.E('div', {}, [
        trees.E('p', {'id': want, 'class': want + ' k', 'a': want}, [trees.E('b')]),
        trees.E('span', {'id': want + 'x', 'class': 'k'}, [trees.E('b')]),
        trees.E(want if ci == 4 else 'q', {'id': 'x', 'class': want}, [trees.E('b')]),
        trees.E('span', {'a': want + ' '}),
    ])]}
    doc = trees.materialise(recipe)
    exp = R.select(mk(want), doc.target)
    try:
        got = sv.select(text, doc.target)
    except Exception as ex:  # noqa: BLE001
        return ('context-rejected', f'{text!r} (escape({s!r})): {type(ex).__name__}: {str(ex)[:200]}')
    if [id(x) for x in got] != [id(x) for x in exp]:
        return ('context-differs', f'{text!r} (escape({s!r})) selects {len(got)} elements, reference {len(exp)}')
    return None


def replay(case):
    if 'ctx' in case:
        return check_context(case['s'], case['ctx'])
    return check_string(case['s'])


def shrink(case, still, cap):
    s = case['s']
    t_end = time.time() + cap
    changed = True
    while changed and len(s) > 1 and time.time() < t_end:
        changed = False
        for i in range(len(s)):
            c2 = dict(case, s=s[:i] + s[i + 1:])
            if c2['s'] and still(c2):
                s = c2['s']
                case = c2
                changed = True
                break
    return case


def codepoints(tier, k, nsh):
    step = 61 if tier == 'quick' else 1
    cp = 1 + k
    while cp < 0x3000:
        yield cp
        cp += nsh
    cp = 0x3000 + k * step
    while cp <= 0x10ffff:
        yield cp
        cp += nsh * step


def shard(ctx):
    col = common.Collector()
    tier = ctx['tier']
    k, nsh = ctx['shard'], ctx['nshards']
    t_rand_end = time.time() + ctx['budget_s'] * 0.35

    def one(s, tag):
        out = check_string(s)
        col.count()
        if needs_transform(s):
            col.nontrivial_case(common.stable_hash(s), {'s': s, 'escaped': sv.escape(s)} if len(s) > 2 else None)
        if out:
            col.fail(out[0], {'s': s}, out[1])

    def body(ch):
        r = ch.i(0, 9)
        if r == 0:
            s = ch.pick(['-', '--', '-0', '0', '-a', 'a b', '\x00', 'a\x00b', '-\x00', '\x7f', '\x80', '\x9f', '\xa0',
                         '\\', '\\61', 'a\\', '9a', '-9', '--9', '\ud800', 'a\udfff', '\U0010ffff', '"', "'", ')(',
                         'a,b', 'a>b', ' ', '\n', 'a\nb', '\r\n', '#', '.', ':', '::', '[', ']', '|', '*', '&', '@'])
        else:
            s = ch.text(ch.pick((1, 2, 3, 8, 40)), min_len=1, surrogates=True) or 'a'
            if ch.p(0.2):
                s = '-' + s
            if ch.p(0.1):
                s = ch.pick('0123456789') + s
        col.classify('random-string')
        one(s, 'random')
        if ch.p(0.3):
            ci = ch.i(0, len(CONTEXTS) - 1)
            if ci == 4 and (any(c in s for c in ':\x00') or True):
                # a tag *name* cannot be compared through bs4 when it contains NUL; keep other contexts general
                if '\x00' in s:
                    ci = 0
            out = check_context(s, ci)
            col.count()
            col.classify('context')
            if out:
                col.fail(out[0], {'s': s, 'ctx': ci}, out[1])

    ex = common.hyp_run(choose.choices(256), body, 20000 if tier == 'quick' else 2000000, ctx['hseed'],
                        deadline_ts=t_rand_end)
    col.extra['random_budget_exhausted'] = int(ex)

    complete = True
    for cp in codepoints(tier, k, nsh):
        if time.time() > ctx['t_end']:
            col.extra['budget_exhausted'] = 1
            complete = False
            break
        c = chr(cp)
        for s in (c, '-' + c, 'a' + c):
            one(s, 'codepoint')
    col.extra['codepoint_sweep_complete'] = int(complete)
    if k == 0:
        for s in ('\x00', '-\x00', 'a\x00', '\x00\x00'):
            one(s, 'nul')
    return col


def evidence_extra(merged):
    complete = merged['extra'].get('codepoint_sweep_complete', 0) == len(merged.get('shard_wall', []))
    return {'exhaustive': bool(complete)}


def selftest():
    for text, want in [('a\\62 c', 'abc'), ('\\31 0', '10'), ('\\-', '-'), ('a\\,b', 'a,b'), ('\\0', '\ufffd'),
                       ('\\110000 x', '\ufffdx'), ('\\000061b', 'ab'), ('\\61\r\nb', 'ab')]:
        if css_unescape_ident(text) != want:
            raise common.HarnessError(f'un-escaper self-test {text!r} -> {css_unescape_ident(text)!r} != {want!r}')
