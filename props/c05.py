"""C05 - selector lists and logical pseudo-classes form a Boolean algebra (metamorphic set laws)."""
from __future__ import annotations

import warnings

import bs4
import soupsieve as sv

from engine import choose, common, fullgrammar as FG, htmldoc, selast as S, trees, witness

ID = 'C05'
BUDGET = {'quick': 50, 'thorough': 900}
META = {
    'rule': 'case = (complex selectors A, B and a compound X from the whole accepted grammar, half of them '
            'witness-directed from the document) x namespace map {none, {}, prefixes only, with default} x document '
            '{html.parser, lxml, html5lib, API-built HTML, XHTML, XML} with svg and iframe content. Oracle: set '
            'algebra over soupsieve\'s own answers in document order: "A, B" = A u B; :is(A,B) = :is(A) u :is(B) '
            '(= "A, B" without a default namespace); :not(A) = U \\ :is(A); :not(A,B) = U \\ :is(A,B) with U = sel("*"); '
            'X:is(A) = X n *|*:is(A); :where/:matches = :is; A subset of "A, B". Non-trivial: sel(A) and sel(B) are '
            'non-empty, differ, and neither is U; distinct by (document, A, B, X, map)',
    'assumptions': ['laws compare soupsieve with itself; an error common to both sides is invisible here (C01, C11-C13, '
                    'C17-C19 have independent reference models)'],
}

CUSTOM = {':--foo': 'p > a, input', ':--bar': ':--foo:is(b), [dir]:dir(rtl)', ':--ltr': ':dir(ltr)', ':--def': 'div:defined'}
NS_MAPS = {
    'none': None,
    'empty': {},
    'prefixes': {'svg': trees.NS_SVG, 'x': 'urn:x', 'html': trees.NS_XHTML},
    'default-xhtml': {'': trees.NS_XHTML, 'svg': trees.NS_SVG},
    'default-svg': {'': trees.NS_SVG, 'h': trees.NS_XHTML},
}
FGCFG = FG.Cfg(ns_forms=True, prefixes=('svg', 'x', 'h', 'html'), custom=('--foo', '--bar', '--ltr', '--def'),
               max_depth=2)
WCFG = witness.Cfg(nth=True, nth_of=True, scope=False, max_depth=2, max_parts=3, p_struct=0.1, p_nth=0.1,
                   p_logical=0.15, p_attr=0.2, miss=0.3, p_extend=0.35)


def sel(text, target, ns):
    with warnings.catch_warnings():
        warnings.simplefilter('ignore')
        return [id(x) for x in sv.select(text, target, namespaces=ns, custom=CUSTOM)]


def gen_complex(ch, g):
    if ch.p(0.8):
        cx = g.complex_for(ch.pick(g.elems), 2)
        if ch.p(0.3):
            cx[-1]['c']['ps'].append(FG.gen_pseudo(ch, FGCFG, 1))
        return cx
    return FG.gen_complex(ch, FGCFG, 2)


def gen_case(ch, tier):
    # a third of the documents are rich in what the per-call memos key on (byte-identical sibling forms, radio groups,
    # meta languages): whether an alternative is evaluated at all on an element depends on the other alternatives
    recipe, flavour = htmldoc.gen_html_doc(ch, depth=2 if tier == 'quick' else 3, memo_rich=ch.p(0.35))
    doc = trees.materialise(recipe)
    if not doc.all_elements():
        recipe = {'kind': 'html-api', 'top': [trees.E('a')], 'detach': None}
        doc = trees.materialise(recipe)
    g = witness.Gen(ch, doc, WCFG)
    a, b = gen_complex(ch, g), gen_complex(ch, g)
    if ch.p(0.2):
        memo = ch.pick(({'p': 'default'}, {'p': 'indeterminate'}, {'p': 'checked'}, {'p': 'lang', 'vals': [ch.pick(('en', 'fr', '', '*'))]},
                        {'p': 'dir', 'd': ch.pick(('ltr', 'rtl'))}, {'p': 'in-range'}, {'p': 'root'}))
        b = [{'comb': None, 'c': {'tag': None, 'ids': [], 'classes': [], 'attrs': [], 'ps': [memo]}}]
        # steer A towards an element the memoising alternative matches (only steering: the laws judge)
        try:
            with warnings.catch_warnings():
                warnings.simplefilter('ignore')
                hit = sv.select(S.render_complex(b), doc.target)
        except Exception:  # noqa: BLE001
            hit = []
        if hit and ch.p(0.8):
            el = hit[ch.i(0, len(hit) - 1)]
            a = g.complex_for(el, 2)
            if ch.p(0.5):
                # ... and tell it apart from look-alikes by position: `<ancestor>:nth-child(i) <name>`
                anc = el.parent
                while anc is not None and getattr(anc, 'name', None) not in ('form', 'fieldset', 'div', 'body') and anc.parent is not None:
                    anc = anc.parent
                if anc is not None and isinstance(anc, bs4.Tag) and anc.parent is not None:
                    sibs = [x for x in anc.parent.contents if isinstance(x, bs4.Tag)]
                    pos = 1 + [id(x) for x in sibs].index(id(anc))
                    bare = lambda name, ps: {'tag': {'ns': None, 'name': name}, 'ids': [], 'classes': [], 'attrs': [], 'ps': ps}  # noqa: E731
                    a = [{'comb': None, 'c': bare(anc.name, [{'p': 'nth-child', 'a': 0, 'b': pos, 'of': None}])},
                         {'comb': ' ', 'c': bare(el.name, [])}]
        if ch.p(0.5):
            a, b = b, a
    if ch.p(0.08):
        # two alternatives that are unequal but hash alike (hash(-1) == hash(-2) in CPython): a list is a list of
        # selectors, not of their hashes
        import copy as _copy
        base_ = g.complex_for(ch.pick(g.elems), 1) if ch.p(0.5) else [{'comb': None, 'c': {'tag': None, 'ids': [], 'classes': [], 'attrs': [], 'ps': []}}]
        (a1, b1), (a2, b2) = ch.pick((((2, -1), (2, -2)), ((-1, 3), (-2, 3)), ((3, -2), (3, -1)), ((-2, 5), (-1, 5))))
        name_ = ch.pick(('nth-child', 'nth-last-child', 'nth-of-type'))
        a, b = _copy.deepcopy(base_), _copy.deepcopy(base_)
        a[-1]['c']['ps'] = [q for q in a[-1]['c']['ps'] if q.get('p') not in S.NTH] + [{'p': name_, 'a': a1, 'b': b1, 'of': None}]
        b[-1]['c']['ps'] = [q for q in b[-1]['c']['ps'] if q.get('p') not in S.NTH] + [{'p': name_, 'a': a2, 'b': b2, 'of': None}]
    x = g.describe(ch.pick(g.elems), 0, bare=True) if ch.p(0.6) else FG.gen_compound(ch, FGCFG, 1)
    junk = ch.pick(('', ' ', 'p >', 'div +', 'span ~ ', 'a > ', '/**/', 'input +')) if ch.p(0.3) else None
    return {'tree': recipe, 'flavour': flavour, 'A': a, 'B': b, 'X': x, 'ns': ch.pick(sorted(NS_MAPS)), 'junk': junk}, doc


def union(doc_order, *sets):
    s = set()
    for x in sets:
        s.update(x)
    return [i for i in doc_order if i in s]


def evaluate(case, doc=None):
    if doc is None:
        doc = trees.materialise(case['tree'])
    ns = NS_MAPS[case['ns']]
    A, B, X = S.render_complex(case['A']), S.render_complex(case['B']), S.render_compound(case['X'])
    t = doc.target
    order = [id(e) for e in doc.elements()]
    fails = []
    try:
        sA, sB, sX = sel(A, t, ns), sel(B, t, ns), sel(X, t, ns)
        U = sel('*', t, ns)
        sAB = sel(f'{A}, {B}', t, ns)
        isA, isB, isAB = sel(f':is({A})', t, ns), sel(f':is({B})', t, ns), sel(f':is({A}, {B})', t, ns)
        notA, notAB = sel(f':not({A})', t, ns), sel(f':not({A}, {B})', t, ns)
        whAB, maAB = sel(f':where({A}, {B})', t, ns), sel(f':matches({A}, {B})', t, ns)
        anyIsA = sel(f'*|*:is({A})', t, ns)
        xIsA = sel(f'{X}:is({A})', t, ns)
        sBA = sel(f'{B}, {A}', t, ns)
    except Exception as e:  # noqa: BLE001
        return [('raises-' + type(e).__name__, f'{e!r:.300} A={A!r} B={B!r} X={X!r} ns={case["ns"]}')], None
    ctx = f'A={A!r} B={B!r} X={X!r} ns={case["ns"]} doc={case["flavour"]}'

    def law(name, got, want):
        if got != want:
            o = {i: n for n, i in enumerate(order)}
            fails.append((name, f'{ctx}: got {[o.get(i) for i in got]} want {[o.get(i) for i in want]}'))

    law('list-is-union', sAB, union(order, sA, sB))
    law('list-commutes', sBA, sAB)
    law('is-list-is-union', isAB, union(order, isA, isB))
    if ns is None or '' not in ns:
        law('is-equals-list', isAB, sAB)
        law('is-single-equals-selector', isA, sA)
    law('not-is-complement', notA, [i for i in U if i not in set(isA)])
    law('not-list-is-complement', notAB, [i for i in U if i not in set(isAB)])
    law('where-equals-is', whAB, isAB)
    law('matches-equals-is', maAB, isAB)
    law('compound-is-intersection', xIsA, [i for i in sX if i in set(anyIsA)])
    # forgiving lists (:is/:where): an empty or dangling slot is forgiven and contributes nothing
    j = case.get('junk')
    if j:
        for fn in ('is', 'where'):
            for text in (f':{fn}({A}, {j}, {B})', f':{fn}({j}, {A}, {B})', f':{fn}({A}, {B}, {j})', f':{fn}({A},{j},{B})'):
                try:
                    got = sel(text, t, ns)
                except sv.SelectorSyntaxError:
                    continue
                except Exception as e:  # noqa: BLE001
                    fails.append(('raises-' + type(e).__name__, f'{text!r}: {e!r:.200}'))
                    continue
                if got != isAB:
                    o = {i: n for n, i in enumerate(order)}
                    fails.append(('forgiven-slot-changes-list', f'{text!r} selects {[o.get(i) for i in got]} but '
                                  f':is({A}, {B}) selects {[o.get(i) for i in isAB]} ({ctx})'))
                    break
    if not set(sA) <= set(sAB):
        fails.append(('list-loses-result', ctx))
    if not set(isA) <= set(U) or not set(notA) <= set(U):
        fails.append(('outside-universe', ctx))
    return fails, {'A': len(sA), 'B': len(sB), 'U': len(U), 'same': sA == sB, 'texts': (A, B, X)}


def replay(case):
    fails, _ = evaluate(case)
    return fails[0] if fails else None


def features(case):
    f = set()
    for cx in (case['A'], case['B']):
        for p in S.walk_pseudos([cx]):
            f.add(p['p'] if p['p'] not in ('nomatch', 'nomatch-fn') else 'nomatch')
        for c in S.walk_compounds([cx]):
            if c.get('tag') and c['tag'].get('ns') is not None:
                f.add('ns-prefix')
    return f


def shard(ctx):
    col = common.Collector()
    tier = ctx['tier']

    def body(ch):
        case, doc = gen_case(ch, tier)
        fails, info = evaluate(case, doc)
        col.count(15)
        col.classify('doc:' + case['flavour'], 'ns:' + case['ns'])
        feats = features(case)
        for f in feats:
            col.classify('feat:' + f)
        if info:
            if info['A'] and info['B']:
                col.classify('both-nonempty')
            if info['A'] and info['B'] and not info['same'] and info['A'] < info['U'] and info['B'] < info['U']:
                col.nontrivial_case([case['tree'], info['texts'], case['ns']],
                                    {'A': info['texts'][0], 'B': info['texts'][1], 'X': info['texts'][2],
                                     'ns': case['ns'], 'doc': case['flavour'], 'selA': info['A'], 'selB': info['B'],
                                     'universe': info['U']})
        for b, d in fails[:3]:
            col.fail(b, case, d)

    ex = common.hyp_run(choose.choices(4096), body, 40000 if tier == 'quick' else 4000000, ctx['hseed'],
                        deadline_ts=ctx['t_end'])
    col.extra['budget_exhausted'] = int(ex)
    return col
