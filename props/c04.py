"""C04 - answers do not depend on query history; matching never mutates the tree (stateful, rule-based)."""
from __future__ import annotations

import copy
import time
import warnings

import bs4
import hypothesis
import soupsieve as sv
from hypothesis import HealthCheck, Phase, settings, strategies as st
from hypothesis.stateful import RuleBasedStateMachine, initialize, invariant, precondition, rule, run_state_machine_as_test

from engine import choose, common, fullgrammar as FG, htmldoc, selast as S, trees

ID = 'C04'
BUDGET = {'quick': 50, 'thorough': 900}
META = {
    'rule': 'Hypothesis RuleBasedStateMachine. State: one generated HTML/XHTML/XML form document (several forms, radio '
            'groups, submit buttons, <meta http-equiv=content-language> present/absent/empty, lang at various depths, '
            'iframes, dir) and a snapshot of it. Rules: select / iselect / select_one / match / filter(tag) / '
            'filter(list in a drawn order) / closest with a selector from a pool weighted toward :lang(), :default, '
            ':indeterminate, :dir(), :checked, range and structural pseudo-classes (plus random full-grammar selectors) '
            'on a drawn target. Invariants after every rule: (1) d in select(sel, t) <=> match(sel, d) for every element '
            'descendant d; (2) the same call on a pristine re-materialisation with a purged cache returns the same '
            'positions; (3) filter(tag) = filter(list(children)) = reversed-list filter reversed; (4) serialisation, '
            'attribute values and node identities are unchanged. Non-trivial: the history has >= 2 queries with a '
            'memoising selector over >= 2 elements and a non-empty answer; distinct by (recipe, history)',
    'assumptions': ['selectors in the pool are scope-free, so match(d) with scope d is the same question as select from t'],
}

NS_DEFAULT = {'svg': trees.NS_SVG}
NS_XML = {'p': 'urn:a', 'q': 'urn:b', '': 'urn:a'}
POOL_XML = ['p|a:not(:checked)', 'a:not(:link)', 'q|*:not(:disabled), b', '*|a:has(> p|b):not(:required)', '[p|k]:not(:checked)',
            ':not(:enabled) > a', 'b, *|c:not(:any-link)', 'p|*:nth-child(odd):not(:optional)']
POOL = [
    ':lang(en)', ':lang("")', ':lang("*")', ':lang(de, fr)', ':not(:lang(de))', 'html:lang("")', ':lang("de-*")',
    ':default', 'form :default', ':has(> :default)', ':not(:default)', 'button:default, input:default',
    ':indeterminate', 'input:indeterminate', ':not(:indeterminate)', ':nth-child(2n+1 of :indeterminate)',
    ':dir(rtl)', ':dir(ltr)', 'div p, span:dir(ltr)', 'svg|circle, p:dir(ltr)', ':not(:dir(ltr))', ':is(:dir(rtl), :lang(fr))',
    ':checked', ':in-range', ':out-of-range', ':disabled', ':enabled', ':required', ':read-write', ':placeholder-shown',
    ':empty', ':first-child', ':root', 'p:-soup-contains("x")', ':is(:default, :indeterminate, :lang(""))',
    'form:has(:indeterminate) :default', ':defined', ':link', 'input', '*', 'fieldset *', ':last-of-type',
    # both directions asked inside one call (an element whose direction is undetermined is neither)
    ':dir(ltr), :dir(rtl)', ':dir(rtl), :dir(ltr)', ':not(:dir(ltr)):not(:dir(rtl))', 'p:dir(ltr), div:dir(rtl), span:dir(rtl)',
    # several root candidates in one call: the document element and the top-level nodes of every iframe document
    ':root', ':not(:root)', 'iframe :root', ':root > *', 'p:root, div:root, html:root', 'iframe > :root:first-child',
    # plain attribute readers (they normalise whatever a program stored on the element)
    '.x, .k', '[title~=abc]', '#i1, #a', '[data-cols]', '[class*=x]:not([rel~=k])', '[unknown|=k]',
]
MEMO = (':lang', ':default', ':indeterminate', ':dir')
FGCFG = FG.Cfg(scope=False, ns_forms=True, prefixes=('svg',), contains_alias=False, max_depth=2)


# values a program (not a parser) may store on an element: lists with non-string items, tuples, bytes, numbers
ODD = [['x', 7, b'y'], [1, 2, 3], [['a'], 'b'], ('k', 'm'), [None, 5], 5, None, b'k m', [b'k'], ['k', ['m', 'n']], 3.5, True]
ODD_ATTRS = ('class', 'data-cols', 'title', 'rel', 'id', 'unknown')


def build(recipe, odd=None):
    doc = trees.materialise(recipe)
    if odd:
        els = doc.all_elements()
        for idx, attr, oi in odd:
            if els:
                els[idx % len(els)].attrs[attr] = copy.deepcopy(ODD[oi % len(ODD)])
    return doc


def serialise(top):
    try:
        return str(top)
    except Exception:  # noqa: BLE001  (bs4 cannot serialise every odd attribute value; the other snapshot parts still apply)
        return [(type(n).__name__, getattr(n, 'name', None) if isinstance(n, bs4.Tag) else str(n)) for n in top.descendants]


def snapshot(doc):
    top = doc.top()
    nodes = list(top.descendants)
    return {
        'str': serialise(top),
        'ids': [id(n) for n in nodes],
        'attrs': [(id(n), [(str(k), repr(v)) for k, v in n.attrs.items()]) for n in nodes if isinstance(n, bs4.Tag)],
        'parents': [id(n.parent) for n in nodes],
        # the links of the top node itself: a parentless fragment stays parentless
        'top-links': [id(top.parent), id(top.previous_element), id(top.previous_sibling), id(top.next_sibling)],
    }


class CallDoesNotReturn(Exception):
    pass


class Inconclusive(BaseException):
    """Not caught by the per-step handlers: ends the shard as a harness error (exit 2), never as a violation."""


def q(fn, *a, **k):
    """One library call.  A call that burns 10 s of CPU on these small trees is run again under a step counter over
    soupsieve and bs4 frames; only exceeding the step budget is reported (as an exception, so it lands in a bucket)."""
    def call():
        r = fn(*a, **k)
        return r if r is None or isinstance(r, (bool, list, bs4.Tag)) else list(r)
    with warnings.catch_warnings():
        warnings.simplefilter('ignore')
        status, val = common.guarded_call(call, cpu_s=10, confirm_steps=3_000_000, path_part=('soupsieve', 'bs4'))
    if status == 'ok':
        return val
    if status == 'raise':
        raise val
    if status == 'hang':
        raise CallDoesNotReturn(f'{getattr(fn, "__name__", fn)} burnt 10 s of CPU and then exceeded 3000000 traced steps')
    raise Inconclusive(f'{getattr(fn, "__name__", fn)}{a[:1]!r:.120} was slow (10 s of CPU) without exceeding the step budget: inconclusive')


def positions(doc, result):
    order = {id(e): i for i, e in enumerate(doc.all_elements())}
    if result is None or isinstance(result, bool):
        return result
    if isinstance(result, bs4.Tag):
        return order.get(id(result), -1)
    return [order.get(id(x), -1) for x in result]


EDIT_ATTRS = ('lang', 'content', 'http-equiv', 'dir', 'checked', 'disabled', 'type', 'name', 'value', 'min', 'readonly')
EDIT_VALUES = ('en', 'fr-CA', '', 'content-language', 'rtl', 'auto', 'radio', 'submit', 'g1', '5', None)


def apply_edit(doc, call):
    """The program changes the document between two queries (an attribute is set or removed, an element is taken out).
    Elements are addressed by position, so the same edit can be applied to a pristine copy."""
    els = doc.all_elements()
    if not els:
        return
    el = els[call['target'] % len(els)]
    if call['attr'] == '#extract':
        if el.parent is not None and el is not doc.top() and len(els) > 2:
            el.extract()
        return
    if call['attr'] == '#add-meta':
        head = next((e for e in els if e.name == 'head'), None)
        if head is not None:
            soup = doc.top() if isinstance(doc.top(), bs4.BeautifulSoup) else bs4.BeautifulSoup('', 'html.parser')
            head.append(soup.new_tag('meta', attrs={'http-equiv': 'content-language', 'content': call['value'] or 'de'}))
        return
    if call['value'] is None:
        el.attrs.pop(call['attr'], None)
    else:
        el.attrs[call['attr']] = call['value']


def relevant_edits(doc):
    """Edits that change what the memoising pseudo-classes look at (pragma, languages, radio groups, default buttons)."""
    out = []
    for idx, el in enumerate(doc.all_elements()):
        n = el.name
        if n == 'meta':
            out += [(idx, 'content', 'en'), (idx, 'content', 'fr-CA'), (idx, 'content', ''), (idx, 'http-equiv', None),
                    (idx, 'http-equiv', 'content-language'), (idx, '#extract', None)]
        elif n == 'input':
            out += [(idx, 'checked', ''), (idx, 'checked', None), (idx, 'name', 'g1'), (idx, 'name', 'g2'), (idx, 'type', 'radio'),
                    (idx, 'type', 'submit'), (idx, 'type', 'checkbox'), (idx, 'disabled', ''), (idx, '#extract', None)]
        elif n == 'button':
            out += [(idx, 'type', 'submit'), (idx, 'type', 'button'), (idx, 'disabled', ''), (idx, '#extract', None)]
        elif n in ('html', 'body', 'form', 'p', 'div', 'fieldset'):
            out += [(idx, 'lang', 'en'), (idx, 'lang', 'fr'), (idx, 'lang', None), (idx, 'dir', 'rtl'), (idx, 'dir', None)]
        elif n == 'head':
            out += [(idx, '#add-meta', 'en'), (idx, '#add-meta', 'fr')]
    return out


def rebuild(recipe, odd, history):
    """A pristine materialisation brought to the current state of the document: all edits so far, no queries."""
    doc = build(recipe, odd)
    for h in history:
        if h['call'] == 'edit':
            apply_edit(doc, h)
    return doc


def do_call(doc, call, NS=None):
    """Run one recorded call on a materialised doc; returns a position-encoded result."""
    NS = NS_DEFAULT if NS is None else NS
    els = doc.all_elements()
    t = call['target']
    target = doc.top() if t < 0 or not els else els[t % len(els)]
    text, kind = call['sel'], call['call']
    if kind == 'select':
        r = q(sv.select, text, target, namespaces=NS)
    elif kind == 'iselect':
        r = q(sv.iselect, text, target, namespaces=NS)
    elif kind == 'select_one':
        r = q(sv.select_one, text, target, namespaces=NS)
    elif kind == 'match':
        r = q(sv.match, text, target, namespaces=NS)
    elif kind == 'closest':
        r = q(sv.closest, text, target, namespaces=NS)
    elif kind == 'filter':
        r = q(sv.filter, text, target, namespaces=NS)
    elif kind == 'filter-list':
        items = list(target.contents)
        for j, p in enumerate(call.get('perm', [])):
            if len(items) > 1:
                a, b = j % len(items), p % len(items)
                items[a], items[b] = items[b], items[a]
        r = q(sv.filter, text, items, namespaces=NS)
    else:
        raise ValueError(kind)
    return positions(doc, r), target


def check_step(recipe, doc, snap, history, fails, NS=None, odd=None):
    """Invariants after the last call of `history`."""
    NS = NS_DEFAULT if NS is None else NS
    call = history[-1]
    if call['call'] == 'edit':
        apply_edit(doc, call)
        snap.clear()
        snap.update(snapshot(doc))      # the edit is the program's doing; from here on this is the tree to preserve
        return {'n': 0, 'nonempty': False}
    try:
        res, target = do_call(doc, call, NS)
    except Exception as e:  # noqa: BLE001
        fails.append(('raises-' + type(e).__name__, f'{call}: {e!r:.200}'))
        return None
    text = call['sel']
    info = {'n': 0, 'nonempty': False}
    desc = [d for d in target.descendants if isinstance(d, bs4.Tag)]
    # (1) select shares one matcher across elements; match builds a fresh one per element
    if call['call'] in ('select', 'iselect', 'select_one', 'filter', 'filter-list'):
        try:
            sel_ids = {id(x) for x in q(sv.select, text, target, namespaces=NS)}
            per = {id(d) for d in desc if q(sv.match, text, d, namespaces=NS)}
            kids = list(target.contents)
            f1 = [id(x) for x in q(sv.filter, text, target, namespaces=NS)]
            f2 = [id(x) for x in q(sv.filter, text, kids, namespaces=NS)]
            f3 = [id(x) for x in q(sv.filter, text, kids[::-1], namespaces=NS)][::-1]
        except Exception as e:  # noqa: BLE001  (the recorded call itself returned: the same question asked another way raises)
            fails.append(('raises-' + type(e).__name__, f'{text!r} through select/match/filter after {call}: {e!r:.200}'))
            return None
        info['n'] = len(desc)
        info['nonempty'] = bool(sel_ids)
        if sel_ids != per:
            order = {id(e): i for i, e in enumerate(doc.all_elements())}
            diff = sorted(order.get(i, -1) for i in sel_ids ^ per)
            fails.append(('select-differs-from-per-element-match',
                          f'{text!r}: select and match disagree on element positions {diff[:8]} '
                          f'(select has {len(sel_ids)}, match has {len(per)})'))
        # (3) filter(tag) vs filter(list) vs reversed
        if not (f1 == f2 == f3):
            fails.append(('filter-tag-differs-from-filter-list', f'{text!r}: {len(f1)}/{len(f2)}/{len(f3)} children'))
    # (3b) filter() over parentless nodes from different trees: every item is its own question, in any order
    if call['call'] == 'filter-list' and call.get('perm') and call['perm'][0] % 2 == 0:
        others = []
        for _ in range(2):
            d2 = trees.materialise(recipe)
            top2 = d2.top()
            tops = [c for c in top2.contents if isinstance(c, bs4.Tag)] if isinstance(top2, bs4.BeautifulSoup) else [top2]
            if tops:
                others.append(tops[0].extract())
        others.append(bs4.BeautifulSoup('', 'html.parser').new_tag('input', attrs={'type': 'radio', 'name': 'g1'}))
        links = [(id(x.parent), id(x.previous_element), id(x.next_sibling)) for x in others]
        try:
            g1 = [id(x) for x in q(sv.filter, text, others, namespaces=NS)]
            g2 = [id(x) for x in q(sv.filter, text, others[::-1], namespaces=NS)][::-1]
            want = [id(x) for x in others if q(sv.match, text, x, namespaces=NS)]
            if not (g1 == g2 == want):
                fails.append(('filter-over-detached-roots-depends-on-order', f'{text!r}: forward {len(g1)}, reversed {len(g2)}, per-item match {len(want)} of {len(others)}'))
            if links != [(id(x.parent), id(x.previous_element), id(x.next_sibling)) for x in others]:
                fails.append(('tree-mutated-top-links', f'filter/match({text!r}) over parentless elements left one of them with a parent or neighbour'))
        except Exception as e:  # noqa: BLE001
            fails.append(('raises-' + type(e).__name__, f'filter({text!r}, detached roots): {e!r:.150}'))
    # (2) pristine copy, purged cache
    sv.purge()
    fresh = rebuild(recipe, odd, history[:-1])
    try:
        res2, _ = do_call(fresh, call, NS)
    except Exception as e:  # noqa: BLE001
        fails.append(('raises-on-pristine-' + type(e).__name__, f'{call}: {e!r:.200}'))
        res2 = res
    if res != res2:
        fails.append(('answer-depends-on-history', f'{call}: after the history {res!r:.150}, on a pristine document {res2!r:.150}'))
    # (4) no mutation
    now = snapshot(doc)
    for key in ('str', 'ids', 'attrs', 'parents', 'top-links'):
        if now[key] != snap[key]:
            fails.append(('tree-mutated-' + key, f'after {call}'))
            break
    return info


def run_history(case):
    """Replay a recorded history from scratch; returns list of failures."""
    sv.purge()
    doc = build(case['tree'], case.get('odd'))
    snap = snapshot(doc)
    fails = []
    ns = case.get('ns')
    for i in range(1, len(case['history']) + 1):
        check_step(case['tree'], doc, snap, case['history'][:i], fails, ns, case.get('odd'))
        if fails:
            break
    return fails


def replay(case):
    fails = run_history(case)
    return fails[0] if fails else None


def shrink(case, still, cap):
    """Drop calls from the history (the failing one is the last), then reduce the tree."""
    t_end = time.time() + cap
    hist = case['history']
    i = 0
    while i < len(hist) - 1 and time.time() < t_end:
        c2 = dict(case, history=hist[:i] + hist[i + 1:])
        if still(c2):
            hist = c2['history']
            case = c2
        else:
            i += 1
    left = max(1.0, t_end - time.time())
    tree = common.reduce_case(case['tree'], lambda t: still(dict(case, tree=t)), left)
    return dict(case, tree=tree)


def make_machine(col, tier, t_end):
    class Machine(RuleBasedStateMachine):
        def __init__(self):
            super().__init__()
            self.doc = None
            self.dead = False

        @initialize(seedv=st.integers(0, (1 << (8 * 3072)) - 1))
        def setup(self, seedv):
            ch = choose.Chooser(seedv.to_bytes(3072, 'little'))
            self.ns = None
            if ch.p(0.15):
                from props import c12
                self.recipe, self.flavour = c12.gen_xml_recipe(ch, ch.pick(('xml-api', 'lxml-xml'))), 'namespaced-xml'
                self.ns = dict(NS_XML)
            else:
                self.recipe, self.flavour = htmldoc.gen_html_doc(ch, depth=2 if tier == 'quick' else 3,
                                                                 iframe_rooted=False, memo_rich=True, fragment=0.3)
            # a quarter of the documents carry values only a program can store (lists with non-string items, ...)
            self.odd = [[ch.i(0, 40), ch.pick(ODD_ATTRS), ch.i(0, len(ODD) - 1)] for _ in range(ch.i(1, 4))] if ch.p(0.25) else None
            sv.purge()
            self.doc = build(self.recipe, self.odd)
            self.snap = snapshot(self.doc)
            self.history = []
            self.memo_queries = 0
            self.edits = 0
            self.nonempty = False
            self.extra = [S.render_list(FG.gen_list(ch, FGCFG, max_items=2)) for _ in range(4)]
            col.classify('doc:' + self.flavour)
            if self.odd:
                col.classify('odd-attribute-values')

        @rule(si=st.integers(0, len(POOL) + 3), kind=st.sampled_from(['select', 'select', 'iselect', 'select_one', 'match',
                                                                      'filter', 'filter-list', 'closest']),
              tgt=st.integers(-3, 40), perm=st.lists(st.integers(0, 20), max_size=4))
        def query(self, si, kind, tgt, perm):
            if self.dead:       # a failure may have left the tree damaged; what follows it is not a new observation
                return
            text = POOL[si] if si < len(POOL) else self.extra[si - len(POOL)]
            if self.ns is not None and si % 3 != 2:
                text = POOL_XML[si % len(POOL_XML)]
            call = {'call': kind, 'sel': text, 'target': tgt, 'perm': perm}
            self.history.append(call)
            fails = []
            info = check_step(self.recipe, self.doc, self.snap, self.history, fails, self.ns, self.odd)
            col.count(6)
            col.classify('call:' + kind)
            if info and info['n'] >= 2 and any(m in text for m in MEMO):
                self.memo_queries += 1
                self.nonempty = self.nonempty or info['nonempty']
            self.dead = bool(fails)
            for b, d in fails[:2]:
                col.fail(b, {'tree': self.recipe, 'history': list(self.history), 'ns': self.ns, 'odd': self.odd}, d)

        @rule(tgt=st.integers(0, 60), ai=st.integers(0, len(EDIT_ATTRS)), vi=st.integers(0, len(EDIT_VALUES) - 1))
        def edit(self, tgt, ai, vi):
            # the program edits the document between queries; later answers must be those of a fresh look at the edited tree
            if self.odd or self.dead:
                return
            call = {'call': 'edit', 'sel': '', 'target': tgt, 'attr': EDIT_ATTRS[ai] if ai < len(EDIT_ATTRS) else '#extract',
                    'value': EDIT_VALUES[vi]}
            rel = relevant_edits(self.doc) if vi % 4 else []
            if rel:
                t, a, v = rel[(tgt * 7 + ai) % len(rel)]
                call.update(target=t, attr=a, value=v)
            self.history.append(call)
            fails = []
            check_step(self.recipe, self.doc, self.snap, self.history, fails, self.ns, self.odd)
            self.edits += 1
            col.classify('call:edit')

        def teardown(self):
            if self.doc is not None and self.memo_queries >= 2 and self.nonempty:
                col.nontrivial_case([self.recipe, self.history],
                                    {'doc': self.flavour, 'history': self.history[:6], 'steps': len(self.history),
                                     'markup': trees.markup(self.recipe)[:300]})
    return Machine


def shard(ctx):
    col = common.Collector()
    tier = ctx['tier']
    t_end = ctx['t_end']

    Machine = make_machine(col, tier, t_end)
    # Batches of machines, each batch a separate seeded Hypothesis run: the time budget is only consulted between
    # batches, so nothing inside a test depends on the clock (no flaky data generation).
    batch = 25
    max_batches = 60 if tier == 'quick' else 4000
    sett = settings(max_examples=batch, stateful_step_count=30 if tier == 'quick' else 50, deadline=None,
                    database=None, phases=[Phase.generate], suppress_health_check=list(HealthCheck),
                    report_multiple_bugs=False, print_blob=False)
    done = 0
    for b in range(max_batches):
        if time.time() > t_end:
            col.extra['budget_exhausted'] = 1
            break
        run_state_machine_as_test(hypothesis.seed(ctx['hseed'] * 10007 + b)(Machine), settings=sett)
        done += 1
    col.extra['machine_batches'] = done
    return col
