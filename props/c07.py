"""C07 - selector parsing time is polynomially bounded (CPU-time pump harness)."""
from __future__ import annotations

import itertools
import json
import os
import select as _select
import subprocess
import sys
import time

from engine import choose, common

ID = 'C07'
MAX_SHRINK_BUCKETS = 2
BUDGET = {'quick': 75, 'thorough': 1200}
MAXLEN = 80
SLOW = 0.5        # seconds of CPU for an input of <= MAXLEN characters
KILL = 6.0        # wall seconds before a worker is killed (counts as t > KILL)
META = {
    'rule': 'pump triples (prefix, unit, suffix): input = prefix + unit*n + suffix, n escalating until 80 characters; '
            'tokens come from a hand-written grammar alphabet plus literals extracted mechanically from every compiled '
            'regex reachable in soupsieve; targets: compile(text), each library regex directly (match and search), '
            'and the match side (attribute selectors / :lang / range pseudo-classes against pumped attribute values). '
            'Oracle: violation iff, confirmed by re-measurement in a fresh worker, an input of <= 80 characters either costs '
            '> 0.5 s CPU (or must be killed) and at least quadruples when the pumped length doubles, or costs > 0.05 s and '
            'grows >= 64x on doubling and >= 6x over the last quarter (a polynomial of degree <= 6 stays below both). '
            'Non-trivial: the pumped input keeps the tokenizer/regex busy past the pumped region, measured as '
            't(80 chars) >= 1.5 * t(40 chars) above the noise floor; distinct by (target, triple)',
    'assumptions': ['CPU time of a single-threaded worker process (time.process_time) is the measured quantity',
                    'thresholds are >= 3 orders of magnitude above normal cost (healthy inputs <= 1 ms at 80 chars)',
                    'a super-polynomial path whose trigger is not a periodic pump of <= 3 tokens is out of reach'],
}

TOKENS = ['a', 'b', '-', '_', '0', '1', '9', ' ', '\t', '\n', '\r\n', '\f', ',', '>', '+', '~', '*', '|', '.', '#', ':', '&',
          '(', ')', '[', ']', '=', '"', "'", '\\', '\\a', '\\a ', '\\61 ', '\\aa', '\\"', '\\\n', '/*', '*/', '/**/',
          '/', 'aa,', 'a,', 'a-', '-*', '*-', 'n', '2n+1', 'of ', ' of ', ':is(', ':not(', ':has(', ':lang(',
          ':nth-child(', ':dir(', ':-soup-contains(', 'é', '\x80', '!', '^=', '$=', ' i', ' s', '--', ':--a', '@']
PREFIXES = ['', 'a', '[a="', "[a='", '[a=', '[', '[a', ':lang(', ':lang("', ':is(', ':not(', ':nth-child(',
            ':nth-child(2n+1 of ', ':nth-child(2n', ':-soup-contains(', ':-soup-contains("', '#', '.', '/*', '\\',
            'a ', 'a,', ':', ':dir(', 'a|', '*|', ':nth-child(2n-', ':nth-child(n+', ':nth-child(-n+', ':nth-last-of-type(3n-',
            ':nth-child(']
SUFFIXES = ['', '!', '\x00', '"', ')', ']', '\\', "'", ' ']

MATCH_SIDE = [
    # (selector, attribute name, extra attrs) - value is pumped
    ('[a~="x"]', 'a', {}), ('[a|="x"]', 'a', {}), ('[a*="x" i]', 'a', {}), ('[a$="x"]', 'a', {}), ('.x', 'class', {}),
    (':lang(x)', 'lang', {}), (':lang("*-x")', 'lang', {}), (':lang("x-*-y")', 'lang', {}),
    (':in-range', 'min', {'type': 'number', 'value': '1'}), (':out-of-range', 'value', {'type': 'date', 'min': '2000-01-01'}),
    (':in-range', 'max', {'type': 'week', 'value': '2000-W01'}), (':out-of-range', 'value', {'type': 'time', 'min': '10:00'}),
    (':in-range', 'value', {'type': 'datetime-local', 'max': '2000-01-01T00:00'}),
    (':dir(ltr)', 'dir', {}), (':placeholder-shown', 'placeholder', {}), (':checked', 'type', {'checked': ''}),
    ('#x', 'id', {}),
]
MATCH_TOKENS = ['a', 'x', ' ', '-', 'x ', ' x', 'x-', '-x', '0', '1', '.', '-0', '0.', ':', 'T', 'W', '\n', '*', '-*',
                'x-*', '00', '9', 'e', '+']


class Worker:
    def __init__(self):
        self.p = None
        self.spawn()

    def spawn(self):
        env = dict(os.environ, VERIF_REPO=common.REPO)
        self.p = subprocess.Popen([sys.executable, os.path.join(common.VERIF, 'fuzz', 'c07_worker.py')],
                                  stdin=subprocess.PIPE, stdout=subprocess.PIPE, env=env, text=True, bufsize=1)

    def ask(self, req, kill_after=KILL):
        """Return CPU seconds, or float('inf') when the worker had to be killed."""
        try:
            self.p.stdin.write(json.dumps(req) + '\n')
            self.p.stdin.flush()
        except BrokenPipeError:
            self.spawn()
            return self.ask(req, kill_after)
        r, _, _ = _select.select([self.p.stdout], [], [], kill_after)
        if not r:
            self.p.kill()
            self.p.wait()
            self.spawn()
            return float('inf')
        line = self.p.stdout.readline()
        if not line:
            self.p.wait()
            self.spawn()
            raise common.HarnessError('C07 worker died')
        return json.loads(line)

    def close(self):
        try:
            self.p.kill()
            self.p.wait()
        except Exception:  # noqa: BLE001
            pass


def make_req(target, text):
    kind = target[0]
    if kind == 'compile':
        return {'op': 'compile', 'text': text}
    if kind == 'regex':
        return {'op': 'regex', 'name': target[1], 'text': text}
    if kind == 'select':
        attrs = dict(target[3])
        attrs[target[2]] = text
        return {'op': 'select', 'selector': target[1], 'attrs': attrs}
    if kind == 'escape':
        return {'op': 'escape', 'text': text}
    raise ValueError(target)


def pumped(triple, length):
    pre, unit, suf = triple
    n = max(1, (length - len(pre) - len(suf)) // max(1, len(unit)))
    return pre + unit * n + suf


def measure(w, target, text):
    res = w.ask(make_req(target, text))
    if res == float('inf'):
        return float('inf')
    return res['t']


def assess(w, target, triple, col=None):
    """Return (verdict, detail). verdict in {'healthy','busy','slow-polynomial','violation'}."""
    full = pumped(triple, MAXLEN)
    if len(full) > MAXLEN + len(triple[1]):
        return 'skip', ''
    t80 = measure(w, target, full)
    if t80 < 0.0001:
        return 'healthy', ''
    t40 = measure(w, target, pumped(triple, MAXLEN // 2))
    if t80 <= 0.02:
        return ('busy' if t80 >= 1.5 * max(t40, 1e-5) else 'healthy'), f't80={t80:.4f} t40={t40:.4f}'
    # suspicious (> 20 ms at 80 characters): exponential growth shows as a huge jump on doubling the length *and* a
    # large jump over the last quarter; a polynomial of degree <= 6 stays below 64x / 5.7x
    t60 = measure(w, target, pumped(triple, (MAXLEN * 3) // 4))
    expo = t80 / max(t40, 2e-4) >= 64 and t80 / max(t60, 2e-4) >= 6
    if t80 <= SLOW and not expo:
        return 'busy', f't80={t80:.4f} t60={t60:.4f} t40={t40:.4f}'
    # candidate violation: escalate to record the growth law, then confirm in a fresh worker
    series = []
    for length in (16, 24, 32, 40, 48, 56, 64, 72, 80):
        t = measure(w, target, pumped(triple, length))
        series.append((length, t))
        if t > SLOW:
            break
    w.close()
    w.spawn()
    first_slow = next((ln for ln, t in series if t > SLOW), MAXLEN)
    t_conf = measure(w, target, pumped(triple, first_slow))
    t_half = max(measure(w, target, pumped(triple, first_slow // 2)), 0.0002)
    t_3q = max(measure(w, target, pumped(triple, (first_slow * 3) // 4)), 0.0002)
    if t_conf == float('inf') and t_half == float('inf'):
        # killed at every size tried: not growth but a call that does not return.  Ask once more, in fresh workers, for
        # the shortest input of the family (one repetition); killed again = violation (a normal call takes microseconds,
        # the kill comes after KILL seconds)
        tiny = triple[0] + triple[1] + triple[2]
        w.close()
        w.spawn()
        t_tiny = measure(w, target, tiny)
        w.close()
        w.spawn()
        t_tiny2 = measure(w, target, tiny) if t_tiny == float('inf') else t_tiny
        if t_tiny == float('inf') and t_tiny2 == float('inf'):
            return 'violation', (f'{target[:2]} input {tiny!r} ({len(tiny)} chars) does not return: the worker had to be killed after '
                                 f'{KILL:.0f} s, twice, and so for every longer member of the family up to {first_slow} chars')
        t_half = max(t_tiny, 0.0002)
    slow_rule = t_conf > SLOW and t_conf / t_half >= 4.0
    expo_rule = t_conf > 0.05 and t_conf / t_half >= 64 and t_conf / t_3q >= 6
    if slow_rule or expo_rule:
        return 'violation', (f'{target[:2]} input {pumped(triple, first_slow)!r} ({first_slow} chars) costs '
                             f'{t_conf if t_conf != float("inf") else ">%.0f" % KILL} s CPU; 3/4 length {t_3q:.4f} s, half '
                             f'length {t_half:.4f} s ({"over 0.5 s" if slow_rule else "x%.0f on doubling: exponential" % (t_conf / t_half)}); '
                             f'series {[(ln, round(t, 4) if t != float("inf") else "killed") for ln, t in series]}')
    return 'slow-polynomial', f't={t_conf:.3f} half={t_half:.4f}'


def mechanical_tokens(w):
    """Literal characters and class representatives under repeats in every reachable regex."""
    import re._parser as sp  # type: ignore
    sys.path.insert(0, common.REPO)
    import soupsieve  # noqa: F401
    from soupsieve import css_match, css_parser, pretty, util
    chars = set()

    def walk(tree):
        for op, av in tree:
            name = str(op)
            if name == 'LITERAL':
                chars.add(chr(av))
            elif name == 'IN':
                for o2, a2 in av:
                    if str(o2) == 'LITERAL':
                        chars.add(chr(a2))
                    elif str(o2) == 'RANGE':
                        chars.add(chr(a2[0]))
            elif name in ('MAX_REPEAT', 'MIN_REPEAT', 'POSSESSIVE_REPEAT'):
                walk(av[2])
            elif name == 'SUBPATTERN':
                walk(av[3])
            elif name == 'BRANCH':
                for b in av[1]:
                    walk(b)
            elif name in ('ASSERT', 'ASSERT_NOT'):
                walk(av[1])
            elif name == 'ATOMIC_GROUP':
                walk(av)

    for mod in (css_parser, css_match, util, pretty):
        for val in vars(mod).values():
            if hasattr(val, 'pattern') and hasattr(val, 'match'):
                try:
                    walk(sp.parse(val.pattern, val.flags))
                except Exception:  # noqa: BLE001
                    pass
    for tok in css_parser.CSSParser.css_tokens:
        pats = [p.re_pattern for p in tok.patterns.values()] if hasattr(tok, 'patterns') else [tok.re_pattern]
        for p in pats:
            try:
                walk(sp.parse(p.pattern, p.flags))
            except Exception:  # noqa: BLE001
                pass
    return sorted(c for c in chars if c not in ('\x00',))


def all_triples(tokens, k):
    for unit in itertools.product(tokens, repeat=k):
        u = ''.join(unit)
        if len(u) > 24:
            continue
        for pre in PREFIXES:
            for suf in SUFFIXES:
                yield (pre, u, suf)


def shard(ctx):
    col = common.Collector(max_samples=3)
    tier = ctx['tier']
    k, nsh = ctx['shard'], ctx['nshards']
    w = Worker()
    try:
        names = w.ask({'op': 'list-regexes'})['names']
        mech = mechanical_tokens(w)
        tokens = list(dict.fromkeys(TOKENS + mech))
        col.extra['tokens'] = len(tokens) if k == 0 else 0
        col.extra['regexes'] = len(names) if k == 0 else 0
        violations = 0

        def run_one(target, triple):
            nonlocal violations
            verdict, detail = assess(w, target, triple)
            if verdict == 'skip':
                return
            col.count()
            col.classify(f'{target[0]}:{verdict}')
            if verdict in ('busy', 'slow-polynomial', 'violation'):
                col.nontrivial_case([target[:2], triple],
                                    {'target': target[:2], 'triple': triple, 'verdict': verdict, 'detail': detail})
            if verdict == 'violation':
                violations += 1
                bucket = f'superpoly-{target[0]}-{target[1] if len(target) > 1 and target[0] != "compile" else triple[0]}'
                col.fail(bucket, {'target': list(target), 'triple': list(triple)}, detail)

        # 1. exhaustive single-token units against compile()
        def stage1(klen, reserve):
            nonlocal violations
            idx = 0
            for triple in all_triples(tokens, klen):
                idx += 1
                if idx % nsh != k:
                    continue
                if time.time() > ctx['t_end'] - reserve or violations >= 2:
                    col.extra['budget_exhausted'] = 1
                    return False
                run_one(('compile',), triple)
            return True

        if stage1(1, 8):
            col.extra['compile_units1_complete'] = 1

        # 2. every library regex directly, single-token units
        idx = 0
        for name in names:
            for unit in tokens:
                for pre in ('', 'a', '"', '\\', '/*', ':a(', '-'):
                    for suf in ('', '!', '\n'):
                        idx += 1
                        if idx % nsh != k:
                            continue
                        if time.time() > ctx['t_end'] - 6 or violations >= 2:
                            break
                        run_one(('regex', name), (pre, unit, suf))

        # 3. match side: pumped attribute values
        idx = 0
        for sel, attr, extra in MATCH_SIDE:
            for unit in itertools.chain(MATCH_TOKENS, (a + b for a in MATCH_TOKENS for b in MATCH_TOKENS)):
                for pre, suf in (('', ''), ('x', '!'), ('2000-', ''), ('-', 'x'), ('1', '.')):
                    idx += 1
                    if idx % nsh != k:
                        continue
                    if time.time() > ctx['t_end'] - 5 or violations >= 2:
                        break
                    run_one(('select', sel, attr, extra), (pre, unit, suf))

        # 3b. custom maps whose definitions refer to each other (input = the whole map): growth in the number of aliases
        if k < 6:
            # 'double' / 'twice': every level uses the next one two times (2^n paths through n definitions)
            shape = ('fib', 'nest', 'not', 'line', 'double', 'twice')[k]
            ts = {}
            for n_al in (6, 10, 14, 18, 22):
                res = w.ask({'op': 'compile-custom', 'n': n_al, 'shape': shape})
                ts[n_al] = float('inf') if res == float('inf') else res['t']
                col.count()
                if ts[n_al] > SLOW:
                    break
            col.nontrivial_case(['custom-chain', shape], {'target': 'compile with an interlinked custom map', 'shape': shape,
                                                         'cpu_by_aliases': {str(a_): (round(t_, 5) if t_ != float('inf') else 'killed') for a_, t_ in ts.items()}})
            last = max(ts)
            half = ts.get(10, ts[min(ts)])
            if ts[last] > SLOW and ts[last] / max(half, 2e-4) >= 64:
                w.close()
                w.spawn()
                res = w.ask({'op': 'compile-custom', 'n': last, 'shape': shape})
                t2 = float('inf') if res == float('inf') else res['t']
                if t2 > SLOW:
                    violations += 1
                    col.fail('superpoly-compile-custom-map',
                             {'target': ['compile-custom', shape], 'triple': ['', str(last), '']},
                             f'compile(":--c0", custom=<{last} interlinked aliases, shape {shape}>) costs '
                             f'{"killed" if t2 == float("inf") else round(t2, 3)} s CPU; by alias count: '
                             f'{ {a_: (round(t_, 4) if t_ != float("inf") else "killed") for a_, t_ in ts.items()} }')

        # 4. exhaustive two-token units against compile() (complete in thorough; budget-limited in quick)
        if stage1(2, ctx['budget_s'] * 0.25):
            col.extra['compile_units2_complete'] = 1

        # 5. Hypothesis-drawn longer units against compile() for the rest of the budget
        def body(ch):
            pre = ch.pick(PREFIXES)
            unit = ''.join(ch.pick(tokens) for _ in range(ch.i(2, 3)))
            suf = ch.pick(SUFFIXES)
            if len(unit) > 30 or violations >= 2:
                return
            target = ('compile',) if ch.p(0.8) else ('escape',)
            run_one(target, (pre, unit, suf))

        ex = common.hyp_run(choose.choices(64), body, 400000, ctx['hseed'],
                            deadline_ts=ctx['t_end'] - 2)
        col.extra['random_budget_exhausted'] = int(ex)
    finally:
        w.close()
    return col


def replay(case):
    if case['target'][0] == 'compile-custom':
        w = Worker()
        try:
            n_al = int(case['triple'][1])
            r1 = w.ask({'op': 'compile-custom', 'n': n_al, 'shape': case['target'][1]})
            r0 = w.ask({'op': 'compile-custom', 'n': 10, 'shape': case['target'][1]})
        finally:
            w.close()
        t1 = float('inf') if r1 == float('inf') else r1['t']
        t0 = 1.0 if r0 == float('inf') else r0['t']
        if t1 > SLOW and t1 / max(t0, 2e-4) >= 64:
            return ('superpoly-compile-custom-map', f'{n_al} aliases cost {t1} s, 10 aliases {t0} s')
        return None
    w = Worker()
    try:
        verdict, detail = assess(w, tuple(case['target']), tuple(case['triple']))
    finally:
        w.close()
    if verdict == 'violation':
        t = case['target']
        bucket = f'superpoly-{t[0]}-{t[1] if len(t) > 1 and t[0] != "compile" else case["triple"][0]}'
        return (bucket, detail)
    return None


def shrink(case, still, cap):
    if case['target'][0] == 'compile-custom':
        return case
    """Shorten the unit / drop prefix / suffix while the violation persists (each probe may cost seconds)."""
    t_end = time.time() + cap
    pre, unit, suf = case['triple']
    for cand in [(pre, unit, ''), ('', unit, suf), (pre, unit[:-1], suf), (pre, unit[1:], suf)]:
        if time.time() > t_end:
            break
        if cand[1] and cand != (pre, unit, suf):
            c2 = dict(case, triple=list(cand))
            if still(c2):
                case = c2
                pre, unit, suf = cand
    return case
