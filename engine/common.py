"""Shared runner infrastructure: path setup, sharding, collect-then-shrink, replays, evidence.

Every check is `/verif/check.py <ID> [--tier quick|thorough] [--replay FILE]`; this module is what
`check.py` and the per-property modules in `/verif/props` share.

Exit protocol: 0 = held (maybe KNOWN-FINDING lines), 1 = `VIOLATION property=<id> replay=<path>`,
2 = harness error (never a violation).
"""
from __future__ import annotations

import collections
import hashlib
import importlib
import json
import multiprocessing
import contextlib
import os
import signal
import sys
import time
import traceback

VERIF = os.path.dirname(os.path.dirname(os.path.abspath(__file__)))
REPO = os.environ.get('VERIF_REPO', '/repo')


def setup_path():
    """Make `import soupsieve` resolve to /repo's working tree, and import it *before* bs4."""
    for p in (VERIF, REPO):
        if p in sys.path:
            sys.path.remove(p)
    sys.path.insert(0, VERIF)
    sys.path.insert(0, REPO)
    deps = os.path.join(VERIF, '.deps')
    if os.path.isdir(deps) and deps not in sys.path:
        sys.path.append(deps)
    import soupsieve  # noqa: F401  (must come before bs4 on trees with the circular-import defect)
    here = os.path.realpath(os.path.dirname(soupsieve.__file__))
    want = os.path.realpath(os.path.join(REPO, 'soupsieve'))
    if here != want:
        raise HarnessError(f'soupsieve imported from {here}, expected {want}')
    return soupsieve


class HarnessError(Exception):
    """A problem in the verification machinery itself (exit 2, never a violation)."""


class CallTimeout(BaseException):
    """Raised by wall_guard inside a library call that runs implausibly long (a *suspected* hang; the verdict is
    then reached by counting traced steps, never by the clock)."""


@contextlib.contextmanager
def wall_guard(seconds):
    """Interrupt the main thread after `seconds` of wall time (SIGALRM; shards are separate processes and run their
    cases in the main thread).  Not re-entrant."""
    def handler(signum, frame):
        raise CallTimeout()
    old = signal.signal(signal.SIGALRM, handler)
    signal.setitimer(signal.ITIMER_REAL, seconds)
    try:
        yield
    finally:
        signal.setitimer(signal.ITIMER_REAL, 0)
        signal.signal(signal.SIGALRM, old)


@contextlib.contextmanager
def cpu_guard(seconds):
    """Like wall_guard, but counts the CPU time this process spends in user mode (ITIMER_VIRTUAL): independent of how
    busy the machine is."""
    def handler(signum, frame):
        raise CallTimeout()
    old = signal.signal(signal.SIGVTALRM, handler)
    signal.setitimer(signal.ITIMER_VIRTUAL, seconds)
    try:
        yield
    finally:
        signal.setitimer(signal.ITIMER_VIRTUAL, 0)
        signal.signal(signal.SIGVTALRM, old)


class StepBudget(Exception):
    pass


def count_steps(fn, budget, path_part='soupsieve'):
    """Run fn() counting 'line' events in frames whose file path contains `path_part`; StepBudget when exceeded."""
    count = [0]
    parts = (path_part,) if isinstance(path_part, str) else tuple(path_part)

    def tracer(frame, event, arg):
        if event == 'call' and any(p in frame.f_code.co_filename for p in parts):
            def local(frame, event, arg):
                if event == 'line':
                    count[0] += 1
                    if count[0] > budget:
                        raise StepBudget()
                return local
            return local
        return None
    old = sys.gettrace()
    sys.settrace(tracer)
    try:
        fn()
    finally:
        sys.settrace(old)
    return count[0]


def guarded_call(fn, cpu_s=10, confirm_steps=3_000_000, path_part='soupsieve'):
    """('ok', value) | ('raise', exception) | ('hang', None) | ('slow', None).
    A call that burns `cpu_s` seconds of CPU is interrupted and run again under the line-event counter: only exceeding
    `confirm_steps` traced steps inside soupsieve is a hang (clock-free verdict); otherwise it was merely slow."""
    try:
        with cpu_guard(cpu_s):
            return ('ok', fn())
    except CallTimeout:
        pass
    except Exception as e:  # noqa: BLE001
        return ('raise', e)
    try:
        with cpu_guard(max(60, cpu_s * 12)):
            count_steps(fn, confirm_steps, path_part)
        return ('slow', None)
    except StepBudget:
        return ('hang', None)
    except CallTimeout:
        return ('slow', None)
    except Exception:  # noqa: BLE001
        return ('slow', None)


class BudgetExhausted(Exception):
    """Raised inside a Hypothesis body to stop generation when the time budget is used up."""


def seed_env():
    try:
        return int(os.environ.get('VERIF_SEED', '1'))
    except ValueError:
        return 1


def ncpu():
    try:
        n = int(os.environ.get('VERIF_WORKERS', '0'))
    except ValueError:
        n = 0
    return n or min(16, os.cpu_count() or 1)


def stable_hash(obj):
    return hashlib.sha1(json.dumps(obj, sort_keys=True, default=repr, ensure_ascii=True).encode()).hexdigest()[:16]


def jsonable(obj):
    """Round-trip through JSON so that what we save is what we replay."""
    return json.loads(json.dumps(obj, default=repr))


class Collector:
    """Per-shard accumulator (picklable result via .result())."""

    def __init__(self, max_samples=4, max_failures_per_bucket=3):
        self.evaluations = 0
        self.nontrivial = set()
        self.classes = collections.Counter()
        self.samples = []
        self.failures = {}
        self.excluded = collections.Counter()
        self.max_samples = max_samples
        self.max_fail = max_failures_per_bucket
        self.notes = []
        self.extra = {}

    def count(self, n=1):
        self.evaluations += n

    def classify(self, *labels):
        for label in labels:
            self.classes[label] += 1

    def nontrivial_case(self, key, sample=None):
        """Record a distinct non-trivial case (key: any JSON-able identity of the case)."""
        h = key if isinstance(key, str) and len(key) == 16 else stable_hash(key)
        if h not in self.nontrivial:
            self.nontrivial.add(h)
            if sample is not None and len(self.samples) < self.max_samples:
                self.samples.append(jsonable(sample))

    def exclude(self, reason, n=1):
        self.excluded[reason] += n

    def fail(self, bucket, case, detail):
        """Record an oracle failure; keep going (collect-then-shrink)."""
        lst = self.failures.setdefault(bucket, {'count': 0, 'cases': []})
        lst['count'] += 1
        if len(lst['cases']) < self.max_fail:
            lst['cases'].append({'case': jsonable(case), 'detail': str(detail)[:2000]})

    def result(self):
        return {
            'evaluations': self.evaluations,
            'nontrivial': sorted(self.nontrivial),
            'classes': dict(self.classes),
            'samples': self.samples,
            'failures': self.failures,
            'excluded': dict(self.excluded),
            'notes': self.notes,
            'extra': self.extra,
        }


def hyp_run(strategy, body, max_examples, seed_value, deadline_ts=None):
    """Run `body(case)` on `max_examples` generated cases. Generation phase only; never shrinks.

    `body` must catch oracle failures itself (Collector.fail). Anything it raises is a harness error,
    except BudgetExhausted which ends the run quietly. Returns True when the budget was exhausted.
    """
    import hypothesis
    from hypothesis import HealthCheck, Phase, given, settings

    def wrapped(case):
        if deadline_ts is not None and time.time() > deadline_ts:
            raise BudgetExhausted()
        body(case)

    @hypothesis.seed(seed_value)
    @settings(
        max_examples=max_examples, database=None, deadline=None, derandomize=False,
        phases=[Phase.generate], suppress_health_check=list(HealthCheck),
        report_multiple_bugs=False, print_blob=False,
    )
    @given(strategy)
    def test(case):
        wrapped(case)

    try:
        test()
    except BudgetExhausted:
        return True
    return False


def _shard_entry(args):
    mod_name, ctx = args
    try:
        setup_path()
        mod = importlib.import_module(mod_name)
        t0 = time.time()
        res = mod.shard(ctx)
        if isinstance(res, Collector):
            res = res.result()
        res['wall_s'] = time.time() - t0
        res['shard'] = ctx['shard']
        return res
    except BaseException:  # noqa: B036
        return {'harness_error': traceback.format_exc(), 'shard': ctx.get('shard')}


def run_shards(mod_name, ctx_base, nshards):
    ctxs = []
    for k in range(nshards):
        c = dict(ctx_base)
        c['shard'] = k
        c['nshards'] = nshards
        c['hseed'] = ctx_base['seed'] * 1000 + k
        ctxs.append((mod_name, c))
    if nshards == 1 or os.environ.get('VERIF_INPROC'):
        return [_shard_entry(c) for c in ctxs]
    mp = multiprocessing.get_context('spawn')
    # budgets only ever end exploration early, so shards finish shortly after budget_s; the generous limit here only
    # keeps a library call that never returns from hanging the check forever (exit 2, never a violation by itself)
    limit = float(ctx_base.get('budget_s', 60)) * 4 + 900
    pool = mp.Pool(min(nshards, ncpu()))
    try:
        res = pool.map_async(_shard_entry, ctxs, chunksize=1)
        try:
            out = res.get(timeout=limit)
        except multiprocessing.TimeoutError:
            pool.terminate()
            raise HarnessError(f'shards did not finish within {limit:.0f} s (budget {ctx_base.get("budget_s")} s): '
                               'a call into the library may not be returning')
        pool.close()
        return out
    finally:
        pool.terminate()
        pool.join()


def merge(results):
    out = {
        'evaluations': 0, 'nontrivial': set(), 'classes': collections.Counter(), 'samples': [],
        'failures': {}, 'excluded': collections.Counter(), 'notes': [], 'extra': {}, 'shard_wall': [],
    }
    errors = []
    for r in results:
        if 'harness_error' in r:
            errors.append(r['harness_error'])
            continue
        out['evaluations'] += r['evaluations']
        out['nontrivial'].update(r['nontrivial'])
        out['classes'].update(r['classes'])
        out['excluded'].update(r['excluded'])
        out['notes'].extend(r.get('notes', []))
        out['shard_wall'].append(round(r.get('wall_s', 0), 2))
        if len(out['samples']) < 10:
            out['samples'].extend(r['samples'][:2])
        for b, f in r['failures'].items():
            tgt = out['failures'].setdefault(b, {'count': 0, 'cases': []})
            tgt['count'] += f['count']
            if len(tgt['cases']) < 4:
                tgt['cases'].extend(f['cases'][:2])
        for k, v in r.get('extra', {}).items():
            if isinstance(v, (int, float)):
                out['extra'][k] = out['extra'].get(k, 0) + v
            elif isinstance(v, list):
                out['extra'].setdefault(k, []).extend(v)
            else:
                out['extra'][k] = v
    return out, errors


# ------------------------------------------------------------------ known findings

def load_known(prop_id):
    path = os.path.join(VERIF, 'known_findings.json')
    if not os.path.exists(path):
        return []
    with open(path) as f:
        data = json.load(f)
    return [e for e in data.get('findings', []) if e.get('property') == prop_id]


# ------------------------------------------------------------------ generic JSON reducer

def _candidates(obj):
    """Yield (path, replacement) simplifications of a JSON value, smallest-first-ish."""
    if isinstance(obj, list):
        n = len(obj)
        # drop chunks, then single items
        size = n // 2
        while size >= 1:
            for i in range(0, n, size):
                yield ('del', i, i + size)
            size //= 2
    elif isinstance(obj, str):
        if obj:
            yield ('set', '')
            if len(obj) > 1:
                yield ('set', obj[:len(obj) // 2])
                yield ('set', obj[len(obj) // 2:])
                yield ('set', obj[1:])
                yield ('set', obj[:-1])
    elif isinstance(obj, bool):
        pass
    elif isinstance(obj, int):
        if obj not in (0, 1):
            yield ('set', 0)
            yield ('set', 1)
            yield ('set', obj // 2)
            if obj < 0:
                yield ('set', -obj)


def _walk(obj, path=()):
    yield path, obj
    if isinstance(obj, list):
        for i, v in enumerate(obj):
            yield from _walk(v, path + (i,))
    elif isinstance(obj, dict):
        for k in sorted(obj):
            yield from _walk(obj[k], path + (k,))


def _get(obj, path):
    for p in path:
        obj = obj[p]
    return obj


def _replace(obj, path, new):
    if not path:
        return new
    obj = json.loads(json.dumps(obj))
    tgt = _get(obj, path[:-1])
    tgt[path[-1]] = new
    return obj


PROTECTED_KEYS = ('kind', 'k', 'p', 'op', 'comb', 'flag', 'placement', 'gap', 'call', 'type')


def reduce_case(case, still_fails, time_cap=60.0, hoist=True):
    """Greedy structural reduction of a JSON case while `still_fails(case)` holds."""
    t_end = time.time() + time_cap
    case = jsonable(case)
    size = len(json.dumps(case))
    improved = True
    while improved and time.time() < t_end:
        improved = False
        for path, sub in list(_walk(case)):
            if time.time() > t_end:
                break
            if path and path[-1] in PROTECTED_KEYS:
                continue
            try:
                cur = _get(case, path)
            except (KeyError, IndexError, TypeError):
                continue
            if cur is not sub and cur != sub:
                continue
            cands = []
            for c in _candidates(cur):
                if c[0] == 'del':
                    new = cur[:c[1]] + cur[c[2]:]
                else:
                    new = c[1]
                cands.append(new)
            # hoist: replace a node by one of its children of the same "shape" (dict with same 'k' family)
            if hoist and isinstance(cur, dict):
                for v in cur.values():
                    if isinstance(v, dict) and path:
                        cands.append(v)
                    elif isinstance(v, list):
                        for it in v:
                            if isinstance(it, dict) and path:
                                cands.append(it)
            for new in cands:
                trial = _replace(case, path, new)
                tsize = len(json.dumps(trial))
                if tsize >= size:
                    continue
                ok = False
                try:
                    ok = bool(still_fails(trial))
                except Exception:
                    ok = False
                if ok:
                    case = trial
                    size = tsize
                    improved = True
                    break
            if improved:
                break
    return case


# ------------------------------------------------------------------ evidence

def write_evidence(prop_id, tier, seed, merged, meta, wall_s, violations, known_hits, extra=None):
    cov = {
        'evaluations': int(merged['evaluations']),
        'distinct_nontrivial': int(len(merged['nontrivial'])),
        'rule': meta.get('rule', ''),
        'samples': merged['samples'][:10] or [{'note': 'no non-trivial sample recorded'}],
        'classes': dict(sorted(merged['classes'].items(), key=lambda kv: (-kv[1], kv[0]))[:80]),
        'excluded': dict(merged['excluded']),
        'exhaustive': bool(meta.get('exhaustive', False)),
        'known_finding_hits': known_hits,
        'shards': len(merged.get('shard_wall', [])),
        'shard_wall_s': merged.get('shard_wall', []),
        'budget_exhausted': bool(merged['extra'].get('budget_exhausted', 0)),
    }
    for k, v in merged['extra'].items():
        if k not in cov:
            cov[k] = v if not isinstance(v, list) else v[:20]
    if extra:
        cov.update(extra)
    ev = {
        'property_id': prop_id,
        'tier': tier,
        'seed': int(seed),
        'level': 'exploration',
        'coverage': cov,
        'assumptions': meta.get('assumptions', []),
        'wall_s': round(wall_s, 2),
        'violations': int(violations),
    }
    edir = os.path.join(VERIF, 'evidence')
    if os.environ.get('VERIF_NO_EVIDENCE'):
        # sensitivity runs against a scratch copy of the repository must not overwrite real evidence
        edir = os.path.join('/tmp', 'verif-mutant-evidence')
    os.makedirs(edir, exist_ok=True)
    path = os.path.join(edir, f'{prop_id}.json')
    tmp = path + '.tmp'
    with open(tmp, 'w') as f:
        json.dump(ev, f, indent=1, sort_keys=True, default=repr)
        f.write('\n')
    os.replace(tmp, path)
    return path


def save_replay(prop_id, bucket, case, detail):
    d = os.path.join(VERIF, 'replays', prop_id, 'found')
    os.makedirs(d, exist_ok=True)
    name = ''.join(ch if ch.isalnum() or ch in '-_' else '_' for ch in bucket)[:60] + '-' + stable_hash(case)[:8]
    path = os.path.join(d, name + '.json')
    with open(path, 'w') as f:
        json.dump({'property': prop_id, 'bucket': bucket, 'case': case, 'detail': detail}, f, indent=1, default=repr)
        f.write('\n')
    return path


def main_check(prop_id, mod_name, tier, replay_file=None):
    """Drive one property check end-to-end. Returns the process exit code."""
    t0 = time.time()
    seed = seed_env()
    try:
        setup_path()
        mod = importlib.import_module(mod_name)
    except Exception:
        traceback.print_exc()
        print(f'HARNESS-ERROR property={prop_id} (import)')
        return 2

    known = load_known(prop_id)

    def attribute(bucket, case_rec):
        """Return the known-finding id explaining this failure, or None."""
        fn = getattr(mod, 'attribute_known', None)
        if fn is None or not known:
            return None
        try:
            return fn(bucket, case_rec, known)
        except Exception:
            return None

    # ---- single replay
    if replay_file:
        with open(replay_file) as f:
            rec = json.load(f)
        try:
            out = mod.replay(rec['case'])
        except Exception:
            traceback.print_exc()
            print(f'HARNESS-ERROR property={prop_id} (replay)')
            return 2
        if out:
            kid = attribute(out[0], {'case': rec['case'], 'detail': out[1]})
            if kid:
                print(f'KNOWN-FINDING: property={prop_id} {kid}')
                return 0
            print(f'replay fails: bucket={out[0]} {out[1]}')
            print(f'VIOLATION property={prop_id} replay={replay_file}')
            return 1
        print(f'replay passes: {replay_file}')
        return 0

    # ---- self test of the oracle (harness error when it fails)
    try:
        if hasattr(mod, 'selftest'):
            mod.selftest()
    except Exception:
        traceback.print_exc()
        print(f'HARNESS-ERROR property={prop_id} (oracle self-test failed)')
        return 2

    violations = []
    known_hits = collections.Counter()

    # ---- replay tier: every saved input
    rdir = os.path.join(VERIF, 'replays', prop_id)
    replayed = 0
    if os.path.isdir(rdir):
        for root, _dirs, files in sorted(os.walk(rdir)):
            if os.path.basename(root) == 'found':
                continue
            for fn in sorted(files):
                if not fn.endswith('.json'):
                    continue
                path = os.path.join(root, fn)
                try:
                    with open(path) as f:
                        rec = json.load(f)
                    out = mod.replay(rec['case'])
                except Exception:
                    traceback.print_exc()
                    print(f'HARNESS-ERROR property={prop_id} (replay {path})')
                    return 2
                replayed += 1
                if out:
                    kid = attribute(out[0], {'case': rec['case'], 'detail': out[1]})
                    if kid:
                        known_hits[kid] += 1
                    else:
                        violations.append((out[0], path, out[1]))

    # ---- generated exploration
    budget = float(os.environ.get('VERIF_BUDGET_S', '0') or 0) or getattr(mod, 'BUDGET', {}).get(tier, 120 if tier == 'quick' else 1200)
    ctx = {'seed': seed, 'tier': tier, 'budget_s': budget, 't_end': time.time() + budget}
    nshards = getattr(mod, 'SHARDS', {}).get(tier, ncpu())
    results = run_shards(mod_name, ctx, nshards)
    merged, errors = merge(results)
    if errors:
        for e in errors[:3]:
            print(e)
        print(f'HARNESS-ERROR property={prop_id} ({len(errors)} shard(s) crashed)')
        return 2

    # ---- attribute / shrink / report failures
    shrunk_buckets = 0
    for bucket, f in sorted(merged['failures'].items()):
        rec = f['cases'][0]
        kid = attribute(bucket, rec)
        if kid:
            known_hits[kid] += f['count']
            continue
        case = rec['case']
        detail = rec['detail']
        shrunk_buckets += 1
        if hasattr(mod, 'replay') and not os.environ.get('VERIF_NO_SHRINK') and shrunk_buckets <= getattr(mod, 'MAX_SHRINK_BUCKETS', 3):
            def still(c, _b=bucket):
                o = mod.replay(c)
                return bool(o) and o[0] == _b and not attribute(o[0], {'case': c, 'detail': o[1]})
            try:
                if still(case):
                    cap = 45.0 if tier == 'quick' else 240.0
                    if hasattr(mod, 'shrink'):
                        case = mod.shrink(case, still, cap)
                    else:
                        case = reduce_case(case, still, cap)
                    o = mod.replay(case)
                    if o:
                        detail = o[1]
            except Exception:
                traceback.print_exc()
        path = save_replay(prop_id, bucket, case, detail)
        violations.append((bucket, path, detail))

    for kid, n in sorted(known_hits.items()):
        what = next((e.get('what', '') for e in known if e.get('id') == kid), '')
        print(f'KNOWN-FINDING: property={prop_id} {kid}: {what} (hits={n})')

    wall = time.time() - t0
    meta = getattr(mod, 'META', {})
    extra = {'replayed_saved_inputs': replayed}
    if hasattr(mod, 'evidence_extra'):
        try:
            extra.update(mod.evidence_extra(merged))
        except Exception:
            pass
    ev = write_evidence(prop_id, tier, seed, merged, meta, wall, len(violations), dict(known_hits), extra)
    print(f'{prop_id} tier={tier} seed={seed} evaluations={merged["evaluations"]} '
          f'nontrivial={len(merged["nontrivial"])} failures_buckets={len(merged["failures"])} '
          f'wall={wall:.1f}s evidence={ev}')
    if len(merged['nontrivial']) < 2:
        print(f'HARNESS-ERROR property={prop_id} (fewer than 2 non-trivial cases were generated)')
        return 2
    if violations:
        for bucket, path, detail in violations:
            print(f'  bucket={bucket}: {str(detail)[:600]}')
            print(f'VIOLATION property={prop_id} replay={path}')
        return 1
    return 0
