#!/venv/bin/python
"""E8 - coverage-guided fuzz target for C06: bytes -> (pattern, custom map); semantic oracle inside."""
import json
import os
import sys

sys.path.insert(0, os.path.dirname(os.path.dirname(os.path.abspath(__file__))))
REPO = os.environ.get('VERIF_REPO', '/repo')
sys.path.insert(0, REPO)
import atheris  # noqa: E402

with atheris.instrument_imports(include=['soupsieve']):
    import soupsieve  # noqa: F401

from props import c06  # noqa: E402

ART = os.environ.get('C06_ARTIFACTS', '/tmp')


def one_input(data):
    fdp = atheris.FuzzedDataProvider(data)
    ncustom = fdp.ConsumeIntInRange(0, 2)
    custom = None
    if ncustom:
        custom = {}
        for _ in range(ncustom):
            name = ':--' + fdp.ConsumeUnicode(fdp.ConsumeIntInRange(0, 6)) if fdp.ConsumeBool() else fdp.PickValueInList(c06.NAME_POOL)
            custom[name] = fdp.ConsumeUnicode(fdp.ConsumeIntInRange(0, 30))
    pattern = fdp.ConsumeUnicode(fdp.remaining_bytes())
    v, bucket, detail = c06.judge(pattern, custom)
    if v == 'bad':
        with open(os.path.join(ART, 'violation.json'), 'w') as f:
            json.dump({'bucket': bucket, 'pattern': pattern, 'custom': custom, 'detail': detail}, f)
        raise RuntimeError('violation: ' + bucket)


if __name__ == '__main__':
    atheris.Setup(sys.argv, one_input)
    atheris.Fuzz()
