#!/usr/bin/env python3
"""Prepare a round of independently written breaking changes: for each property id given, create a scratch worktree
/tmp/wt/<ID><suffix> of /repo HEAD and write /tmp/wt/prompt_<ID><suffix>.txt.  The prompt holds only the property text
(from properties.jsonl) and one-line descriptions of the code sites earlier authors already used (their own words, from
seeded/*/meta.json) - nothing about the checks.   usage: tools/seed_prompts.py <suffix> <ID> [<ID> ...]
"""
import glob
import json
import os
import subprocess
import sys

V = os.path.dirname(os.path.dirname(os.path.abspath(__file__)))

TEMPLATE = '''You are working in a scratch git worktree of the pure-Python library facelessuser/soupsieve (CSS selectors for BeautifulSoup) at {wt} . Work ONLY inside {wt}: do not read or modify /repo, /verif or any other directory, and do not commit anything.

Tools: /venv/bin/python (has bs4, lxml, html5lib, pytest). The test-suite is run with:
    cd {wt} && /venv/bin/python -m pytest -q -p no:cacheprovider -n 8
(381 tests pass on the unmodified tree). To make Python import the library from this worktree use PYTHONPATH={wt} .

Here is a semantic property of the library that should always hold:

[{pid}] {title}
{statement}
(Quantified over: {quant})

YOUR TASK: produce a realistic change to the library source under {wt}/soupsieve — the kind of bug a maintainer could plausibly introduce during a refactor, an optimisation or a feature tweak — that BREAKS this property while (a) the package still imports and (b) the ENTIRE existing test-suite still passes unchanged. The change must need something specific in order to manifest: an unusual input, a particular multi-step sequence of operations, a particular interleaving or timing, a fault at a particular point, or two cooperating code sites that each look fine alone. It must NOT be something ordinary everyday use would expose at once. Other engineers have already produced the following changes for this property:
{earlier}
Yours must be in a DIFFERENT part of the code than all of these and of a different nature (think: a different function, a different data flow, an off-by-one, a wrong default, a stale variable, an early exit, state shared between two calls, an ordering assumption, a boundary value, a rarely taken branch). Keep it small (a few lines) and subtle; do not add comments that give it away.

Deliver, inside {wt}:
1. the change applied to the working tree (uncommitted);
2. {wt}/demo.py — a small standalone program, run as `cd /tmp && PYTHONPATH={wt} /venv/bin/python {wt}/demo.py`, that exits non-zero (a failing assert) WITH your change and exits 0 WITHOUT it. Verify both states yourself. Do NOT use `git stash` (the stash is shared with other worktrees of this repository and other people are using it concurrently): instead save your change with `git diff > {wt}/my.patch`, undo it with `git apply -R {wt}/my.patch` to test the unmodified tree, and re-apply it with `git apply {wt}/my.patch`;
3. {wt}/meta.json with keys: "property" (the id), "summary" (what you changed and why it breaks the property), "needs" (what is needed for the bug to manifest), "ran" (the commands you ran and their outcomes, including the full test-suite run WITH the change).

Before finishing, make sure the full test-suite passes with your change applied (381 passed). In your final answer give: the diff (git diff), what the bug needs to manifest, and the demo output in both states.
'''


def main():
    suffix, ids = sys.argv[1], sys.argv[2:]
    props = {}
    for line in open(os.path.join(V, 'properties.jsonl')):
        d = json.loads(line)
        props[d['id']] = d
    os.makedirs('/tmp/wt', exist_ok=True)
    for pid in ids:
        d = props[pid]
        earlier = []
        for mf in sorted(glob.glob(os.path.join(V, 'seeded', '*', 'meta.json'))):
            m = json.load(open(mf))
            if m.get('breaks_property') != pid:
                continue
            summ = str((m.get('agent_meta') or {}).get('summary') or '').replace('\n', ' ')
            earlier.append('   - ' + summ[:260])
        wt = f'/tmp/wt/{pid}{suffix}'
        r = subprocess.run(f'git -C /repo worktree add -q --detach {wt} HEAD', shell=True, capture_output=True, text=True)
        if r.returncode:
            print(pid, 'worktree failed:', r.stderr.strip()[:200])
            continue
        text = TEMPLATE.format(wt=wt, pid=pid, title=d['title'], statement=d['statement'], quant=d['quantifier']['text'],
                               earlier='\n'.join(earlier) or '   (none yet)')
        open(f'/tmp/wt/prompt_{pid}{suffix}.txt', 'w').write(text)
        print(pid, wt, len(earlier), 'earlier sites')


if __name__ == '__main__':
    main()
