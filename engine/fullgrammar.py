"""Random selector ASTs over the *whole* grammar soupsieve accepts (every pseudo-class, namespaces,
custom aliases, nesting).  Pure functions of a Chooser.  Used by C05, C06, C08, C09, C15, C20.
"""
from __future__ import annotations

from . import selast as S

TAGS = ('a', 'p', 'div', 'span', 'input', 'form', 'button', 'select', 'option', 'textarea', 'fieldset', 'legend',
        'iframe', 'html', 'body', 'svg', 'circle', 'progress', 'optgroup', 'area', 'bdi', 'my-el', 'li', 'ul')
# the last entries hold code points next to the boundaries a decoder may special-case (DEL/C1, surrogate block, BMP end, last code point)
IDS = ('i1', 'i2', 'i3', 'x', '\ue000x', 'x\t')
# 'a ' / 'x\t': a name whose last character is white space (written as an escape, possibly at the very end of a pattern)
CLASSES = ('k', 'm', 'K', 'icon-\ue000', '\ud7ff\U0010ffff', 'a ')
ATTR_NAMES = ('type', 'title', 'lang', 'dir', 'href', 'class', 'id', 'name', 'data-x', 'value', 'min', 'max',
              'checked', 'disabled', 'placeholder')
ATTR_VALUES = ('', 'a', 'abc', 'b c', 'x-y', 'text', 'radio', 'checkbox', 'submit', 'number', 'ltr', 'rtl', 'en',
               'de-DE', '5', 'Abc', '\ue000', 'a\x7f\x80\xa0b', '\uffff\U00010000\ufffd')
OPS = (None, '=', '~=', '|=', '^=', '$=', '*=', '!=')
LANGS = ('en', 'de', 'de-DE', '*-DE', 'de-*', '', '*', 'en-US', 'x', 'DE-ch-1996')
NEEDLES = ('a', 'x y', '', 'abc', 'a"b', "it's", 'a\\b', 'é', ')', ',', 'say "hi"', "it's'", '"', "'", '\\', 'x\\', '\ue000', '\ud7ff \U0010ffff')
STATE = tuple(n for n in S.SIMPLE if n not in ('scope',))


class Cfg:
    def __init__(self, **kw):
        self.tags = TAGS
        self.prefixes = ()        # namespace prefixes that may be used in selectors
        self.ns_forms = False     # use ns|E, *|E, |E forms
        self.custom = ()          # custom names (with leading '--')
        self.html_only = True     # include HTML-only/state pseudo-classes
        self.nomatch = True
        self.contains = True
        self.lang = True
        self.dir = True
        self.nth = True
        self.scope = True
        self.max_depth = 3
        self.big_nth = False
        self.contains_alias = False   # emit the deprecated ':contains' spelling (FutureWarning)
        self.__dict__.update(kw)


def gen_nsprefix(ch, cfg):
    if not cfg.ns_forms:
        return None
    r = ch.i(0, 9)
    if r <= 4:
        return None
    if r == 5:
        return '*'
    if r == 6:
        return ''
    if cfg.prefixes:
        return ch.pick(cfg.prefixes)
    return None


def gen_attr(ch, cfg):
    op = ch.pick(OPS)
    flag = None
    if op and ch.p(0.3):
        flag = ch.pick(('i', 's', 'i', 's', 'I', 'S'))
    return {'ns': gen_nsprefix(ch, cfg) if ch.p(0.3) else None, 'name': ch.pick(ATTR_NAMES), 'op': op,
            'val': ch.pick(ATTR_VALUES) if op else '', 'flag': flag}


def gen_anb(ch, cfg):
    if cfg.big_nth and ch.p(0.1):
        return ch.i(-10 ** 4, 10 ** 4), ch.i(-10 ** 4, 10 ** 4)
    return ch.i(-3, 4), ch.i(-4, 6)


def gen_pseudo(ch, cfg, depth):
    kinds = [(6, 'struct'), (4, 'logical')]
    if cfg.html_only:
        kinds.append((5, 'state'))
    if cfg.nth:
        kinds.append((3, 'nth'))
    if cfg.nomatch:
        kinds.append((1, 'nomatch'))
    if cfg.contains:
        kinds.append((2, 'contains'))
    if cfg.lang:
        kinds.append((2, 'lang'))
    if cfg.dir and cfg.html_only:
        kinds.append((2, 'dir'))
    if cfg.scope:
        kinds.append((1, 'scope'))
    if cfg.custom:
        kinds.append((2, 'custom'))
    k = ch.weighted(kinds)
    if k == 'logical' and depth <= 0:
        k = 'struct'
    if k == 'struct':
        return {'p': ch.pick(('root', 'empty', 'first-child', 'last-child', 'only-child', 'first-of-type',
                              'last-of-type', 'only-of-type'))}
    if k == 'state':
        return {'p': ch.pick(('checked', 'default', 'disabled', 'enabled', 'indeterminate', 'optional', 'required',
                              'placeholder-shown', 'read-only', 'read-write', 'in-range', 'out-of-range', 'link',
                              'any-link', 'defined'))}
    if k == 'logical':
        name = ch.pick(S.LOGICAL)
        if name == 'has':
            args = []
            for _ in range(ch.i(1, 2)):
                cxp = gen_complex(ch, cfg, depth - 1, max_parts=2)
                cxp[0]['comb'] = ch.pick((None, ' ', '>', '+', '~'))
                args.append(cxp)
            return {'p': 'has', 'args': args}
        return {'p': name, 'args': [gen_complex(ch, cfg, depth - 1, max_parts=2) for _ in range(ch.i(1, 3))]}
    if k == 'nth':
        name = ch.pick(S.NTH)
        a, b = gen_anb(ch, cfg)
        p = {'p': name, 'a': a, 'b': b, 'of': None}
        if 'of-type' not in name and depth > 0 and ch.p(0.3):
            p['of'] = [gen_complex(ch, cfg, depth - 1, max_parts=2) for _ in range(ch.i(1, 2))]
        return p
    if k == 'nomatch':
        if depth > 0 and ch.p(0.3):
            return {'p': 'nomatch-fn', 'name': ch.pick(S.NO_MATCH_FN),
                    'args': [gen_complex(ch, cfg, depth - 1, max_parts=1)]}
        return {'p': 'nomatch', 'name': ch.pick(S.NO_MATCH)}
    if k == 'contains':
        p = {'p': 'contains', 'own': ch.p(0.4), 'vals': [ch.pick(NEEDLES) for _ in range(ch.i(1, 3))]}
        if cfg.contains_alias and ch.p(0.2):
            p['alias'] = 'contains'
            p['own'] = False
        return p
    if k == 'lang':
        return {'p': 'lang', 'vals': [ch.pick(LANGS) for _ in range(ch.i(1, 3))]}
    if k == 'dir':
        return {'p': 'dir', 'd': ch.pick(('ltr', 'rtl'))}
    if k == 'scope':
        return {'p': ch.pick(('scope', 'amp'))}
    if k == 'custom':
        return {'p': 'custom', 'name': ch.pick(cfg.custom)}
    raise AssertionError(k)


def gen_compound(ch, cfg, depth, force=False):
    c = {'tag': None, 'ids': [], 'classes': [], 'attrs': [], 'ps': []}
    r = ch.i(0, 9)
    if r <= 4:
        c['tag'] = {'ns': gen_nsprefix(ch, cfg), 'name': ch.pick(cfg.tags)}
    elif r == 5:
        c['tag'] = {'ns': gen_nsprefix(ch, cfg), 'name': '*'}
    if ch.p(0.15):
        c['ids'].append(ch.pick(IDS))
    if ch.p(0.2):
        c['classes'].append(ch.pick(CLASSES))
        # several classes on one compound (sometimes one of them twice)
        while len(c['classes']) < 4 and ch.p(0.35):
            c['classes'].append(ch.pick(CLASSES))
    for _ in range(ch.weighted([(6, 0), (3, 1), (1, 2)])):
        c['attrs'].append(gen_attr(ch, cfg))
    for _ in range(ch.weighted([(4, 0), (4, 1), (2, 2)])):
        c['ps'].append(gen_pseudo(ch, cfg, depth))
    if force and not (c['tag'] or c['ids'] or c['classes'] or c['attrs'] or c['ps']):
        c['ps'].append(gen_pseudo(ch, cfg, depth))
    return c


def gen_complex(ch, cfg, depth, max_parts=3):
    n = ch.weighted([(5, 1), (3, 2), (2, 3)])
    n = min(n, max_parts)
    parts = []
    for i in range(n):
        parts.append({'comb': None if i == 0 else ch.pick((' ', '>', '+', '~')), 'c': gen_compound(ch, cfg, depth)})
    return parts


def gen_list(ch, cfg, depth=None, max_items=3):
    depth = cfg.max_depth if depth is None else depth
    return [gen_complex(ch, cfg, depth) for _ in range(ch.weighted([(6, 1), (3, 2), (1, 3)][:max_items]))]
