"""C08 - matching never raises on any tree."""
from __future__ import annotations

import copy
import os
import traceback
import warnings

import bs4
import soupsieve as sv
from bs4 import NavigableString

from engine import choose, common, fullgrammar as FG, htmldoc, selast as S, trees

ID = 'C08'
BUDGET = {'quick': 50, 'thorough': 900}
META = {
    'rule': 'trees: hostile HTML form soup (forms, fieldsets, controls of every type, iframes, svg, custom elements) '
            'whose type/min/max/value/dir/lang/name/placeholder/http-equiv/content/contenteditable are missing, empty, '
            'valid, near-valid (year 0000/0999/10000/275760, week 00/53/54, month 13, 24:00, 1e3 ...) or arbitrary '
            'text; all parsers, API-built, XML with unknown namespaces, detached fragments, several top-level nodes, '
            'top-level text; attributes read only by attribute/class/id selectors also carry None, numbers, bools, '
            'UTF-8 bytes, tuples, nested lists. Selectors: one probe per pseudo-class (plain and negated) plus random '
            'full-grammar selectors. Calls: all six entry points on the document, elements and detached elements; '
            'non-Tag targets must raise TypeError and nothing else. Oracle: no exception. Non-trivial: a probe of an '
            'HTML-state/range/dir/lang pseudo-class met an element of the kind it inspects; distinct by (tree, selector)',
    'assumptions': ['bytes values are valid UTF-8', 'odd-typed values are never put on attributes that pseudo-classes read',
                    'tree depth <= 40'],
}

PROBES = [':' + n for n in S.SIMPLE] + [f':not(:{n})' for n in S.SIMPLE if n != 'scope'] + [
    ':dir(ltr)', ':dir(rtl)', ':not(:dir(ltr))', ':lang(en)', ':lang("")', ':lang("*-DE", x)', ':not(:lang("de-*"))',
    ':-soup-contains("x")', ':-soup-contains-own("")', ':nth-child(2n+1 of :in-range)', ':nth-last-of-type(-n+2)',
    ':has(> :checked)', ':has(~ :default, + :indeterminate)', ':is(:disabled, :enabled) > *', ':root :empty',
    'input:in-range', ':not(:out-of-range)', 'form :default', '[type]', '[class~=k]', '#i1', '.k', '[title|=a i]',
    '[data-x]', '[id]', '[class]', ':placeholder-shown', ':read-write', 'svg|circle', '*|*', '|a', ':focus',
    ':host(a)', ':current(p, q)', ':--c', '&', ':scope > *',
]
NS = {'svg': trees.NS_SVG, 'x': 'urn:x'}
CUSTOM = {':--c': ':checked, :in-range:dir(rtl)'}
FGCFG = FG.Cfg(ns_forms=True, prefixes=('svg', 'x'), custom=('--c',), big_nth=True)
ODD = [None, 0, 5, 3.5, True, False, b'k m', b'\xc3\xa9', ('k', 'm'), ['k', ['m', 'n']], [None, 5], [], (), [b'k'], 10 ** 20]
ODD_ATTRS = ('class', 'id', 'title', 'data-x', 'unknown', 'rel')
DETACHED_PROBES = (':indeterminate', ':default', ':checked', ':disabled', ':dir(ltr)', ':lang(en)', ':lang("")', ':root',
                   ':in-range', ':nth-child(1)', ':only-of-type', ':has(> *)', ':not(:indeterminate)', ':placeholder-shown',
                   '* > :indeterminate', ':scope', ':-soup-contains("x")', ':read-write', ':empty', ':defined')
RELEVANT = {
    'range': lambda e: e.name == 'input' and (e.get('min') is not None or e.get('max') is not None),
    'dir-auto': lambda e: str(e.get('dir', '')).lower() == 'auto',
    'named-radio': lambda e: e.name == 'input' and str(e.get('type', '')).lower() == 'radio' and e.get('name'),
    'lang': lambda e: e.get('lang') is not None,
    'form': lambda e: e.name == 'form',
    'fieldset': lambda e: e.name == 'fieldset',
}


def safe_str(v):
    try:
        return str(v)[:80]
    except Exception:  # noqa: BLE001  (bs4 cannot serialise every odd attribute value)
        return f'<{getattr(v, "name", "?")} {sorted(map(str, getattr(v, "attrs", {})))}>'


class StepBudget(Exception):
    pass


def run_with_step_budget(fn, budget):
    import sys
    count = [0]

    def tracer(frame, event, arg):
        if event == 'call' and 'soupsieve' in frame.f_code.co_filename:
            def local(frame, event, arg):
                if event == 'line':
                    count[0] += 1
                    if count[0] > budget:
                        raise StepBudget()
                return local
            return local
        return None
    old = sys.gettrace()
    sys.settrace(tracer)
    try:
        fn()
    finally:
        sys.settrace(old)
    return count[0]


def gen_case(ch, tier):
    mode = ch.weighted([(6, 'html'), (2, 'generic'), (2, 'xmlns')])
    if mode == 'html':
        recipe, flavour = htmldoc.gen_html_doc(ch, depth=2 if tier == 'quick' else 4, hostile=True, nested_forms=True)
    elif mode == 'generic':
        recipe = trees.gen_recipe(ch, names=('a', 'p', 'input', 'form', 'iframe', 'html', 'body'), max_elems=12,
                                  attr_names=('type', 'min', 'max', 'value', 'dir', 'lang', 'name', 'title'),
                                  attr_values=('', 'number', 'radio', '5', 'auto', 'en', 'x', '2020-W53', '0000-01-01'),
                                  string_kinds=('t', 'c', 'cd', 'pi', 'dt', 'decl'), max_top=3)
        flavour = recipe['kind']
    else:
        recipe = trees.gen_recipe(ch, kinds=('xml-api', 'lxml-xml'), names=('a', 'input', 'html', 'circle', 'p'),
                                  ns_choices=(None, 'urn:unknown', trees.NS_XHTML, trees.NS_SVG, ''), max_elems=10,
                                  attr_names=('type', 'min', 'dir', 'lang', 'xml:lang', 'name'),
                                  attr_values=('', 'week', '2020-W54', 'auto', 'en', 'g1'))
        flavour = 'xmlns'
    odd = []
    if recipe['kind'] in trees.API_KINDS or ch.p(0.3):
        for _ in range(ch.i(0, 4)):
            odd.append([ch.i(0, 40), ch.pick(ODD_ATTRS), ch.i(0, len(ODD) - 1)])
    sels = [ch.pick(PROBES) for _ in range(ch.i(2, 5))]
    for _ in range(ch.i(1, 2)):
        sels.append(S.render_list(FG.gen_list(ch, FGCFG, max_items=2)))
    if ch.p(0.15) and not recipe.get('detach'):
        recipe['detach'] = [ch.i(0, 3) for _ in range(ch.i(1, 3))]
    return {'tree': recipe, 'flavour': flavour, 'odd': odd, 'sels': sels,
            'targets': [ch.i(-1, 40) for _ in range(2)],
            'extract': [ch.i(0, 60) for _ in range(ch.i(0, 3))] if ch.p(0.35) else [],
            'huge_nth': [ch.pick((-1, 1, -3, 2, 0, -10 ** 9)), ch.pick((1, -1)) * 10 ** ch.pick((6, 9, 12, 18, 30, 100)) + ch.i(-3, 3),
                         ch.pick(('nth-child', 'nth-last-child', 'nth-of-type', 'nth-last-of-type'))] if ch.p(0.15) else None}


def build(case):
    doc = trees.materialise(case['tree'])
    els = doc.all_elements()
    for idx, attr, oi in case.get('odd', []):
        if els:
            els[idx % len(els)].attrs[attr] = copy.deepcopy(ODD[oi % len(ODD)])
    return doc, els


GUARD_S = 10                 # CPU seconds; no call on these trees (<= ~60 elements) legitimately burns anywhere near this much
CONFIRM_STEPS = 3_000_000    # traced line events inside soupsieve that decide "does not terminate"
SLOW = []


def guarded(fn, fails, what):
    """Run one library call.  A call that has burnt GUARD_S seconds of CPU is a *suspected* hang: it is interrupted and
    run again under the line-event counter; only exceeding CONFIRM_STEPS steps is reported (clock-free verdict), a call
    that is merely slow is noted as inconclusive.  Returns ('ok', value) | ('raise', exc) | ('timeout', None)."""
    try:
        with common.cpu_guard(GUARD_S):
            return ('ok', fn())
    except common.CallTimeout:
        pass
    except Exception as e:  # noqa: BLE001
        return ('raise', e)
    try:
        with common.wall_guard(300):
            run_with_step_budget(fn, CONFIRM_STEPS)
        SLOW.append(what)
    except StepBudget:
        fails.append(('matching-does-not-terminate-in-step-budget',
                      f'{what} had burnt {GUARD_S} s of CPU and then exceeded {CONFIRM_STEPS} traced steps inside soupsieve'))
    except common.CallTimeout:
        SLOW.append(what + ' (traced run also slow without making steps)')
    except Exception:  # noqa: BLE001
        SLOW.append(what + ' (raised when traced)')
    return ('timeout', None)


def where(e):
    tb = traceback.extract_tb(e.__traceback__)
    return next((f'{os.path.basename(f.filename)}:{f.name}' for f in reversed(tb) if 'soupsieve' in f.filename), '?')


def run_calls(comp, text, target, els, fails, ckw):
    """All six entry points; any exception is a failure."""
    calls = [
        ('select', lambda: comp.select(target)), ('select-limit', lambda: comp.select(target, limit=2)),
        ('iselect', lambda: list(comp.iselect(target))), ('select_one', lambda: comp.select_one(target)),
        ('match', lambda: comp.match(target)), ('filter', lambda: comp.filter(target)),
        ('filter-list', lambda: comp.filter(list(target.contents))), ('closest', lambda: comp.closest(target)),
        ('module-select', lambda: sv.select(text, target, **ckw)),
        ('module-match', lambda: sv.match(text, target, **ckw)),
    ]
    n = 0
    for name, fn in calls:
        n += 1
        kind, out = guarded(fn, fails, f'{name}({text!r})')
        if kind == 'raise':
            e = out
            fails.append((f'raises-{type(e).__name__}-{where(e)}',
                          f'{name}({text!r}) raised {type(e).__name__}: {str(e)[:200]}'))
            continue
        if kind == 'timeout':
            continue
        if name in ('select', 'iselect', 'filter', 'filter-list', 'select-limit', 'module-select'):
            if not isinstance(out, list) or not all(isinstance(x, bs4.Tag) for x in out):
                fails.append((f'{name}-bad-return', repr(out)[:100]))
        elif name in ('match', 'module-match') and not isinstance(out, bool):
            fails.append((f'{name}-bad-return', repr(out)[:100]))
    return n


def evaluate(case):
    doc, els = build(case)
    fails = []
    n = 0
    ckw = {'namespaces': NS, 'custom': CUSTOM}
    targets = []
    for t in case['targets']:
        targets.append(doc.top() if t < 0 or not els else els[t % len(els)])
    if doc.target is not doc.top():
        targets.append(doc.target)
    met = set()
    for text in case['sels']:
        try:
            with warnings.catch_warnings():
                warnings.simplefilter('ignore')
                comp = sv.compile(text, **ckw)
        except Exception as e:  # noqa: BLE001
            raise common.HarnessError(f'C08 selector does not compile: {text!r}: {e!r}')
        for target in targets:
            n += run_calls(comp, text, target, els, fails, ckw)
        for key, pred in RELEVANT.items():
            if any(pred(e) for e in els):
                if (key == 'range' and 'range' in text) or (key == 'dir-auto' and 'dir(' in text) or (
                        key == 'named-radio' and 'indeterminate' in text) or (key == 'lang' and 'lang(' in text) or (
                        key == 'form' and 'default' in text) or (key == 'fieldset' and ('abled' in text)):
                    met.add(key)
    # detached single elements as call targets (soup.new_tag / tag.extract()): every probe, every entry point
    if els and case.get('extract'):
        victims = []
        for idx in case['extract']:
            e = els[idx % len(els)]
            if e.parent is not None and not any(e is v for v in victims):
                victims.append(e.extract())
        fresh = bs4.BeautifulSoup('', 'html.parser').new_tag('input', attrs={'type': 'radio', 'name': 'g'})
        victims.append(fresh)
        for v in victims:
            for text in DETACHED_PROBES:
                comp = sv.compile(text, **ckw)
                for name, fn in (('match', lambda: comp.match(v)), ('closest', lambda: comp.closest(v)),
                                 ('filter', lambda: comp.filter([v])), ('select', lambda: comp.select(v)),
                                 ('select_one', lambda: comp.select_one(v))):
                    n += 1
                    kind, out = guarded(fn, fails, f'{name}({text!r}) on the detached element {safe_str(v)!r}')
                    if kind == 'raise':
                        e = out
                        fails.append((f'raises-{type(e).__name__}-{where(e)}',
                                      f'{name}({text!r}) on the detached element {safe_str(v)!r} raised {type(e).__name__}: {str(e)[:150]}'))
        met.add('detached-element')
    # termination: astronomically large An+B terms must not make matching walk one n at a time. Judged by a step
    # budget (line events inside soupsieve counted by a tracer), never by a clock.
    if case.get('huge_nth') and els:
        a_, b_, pseudo = case['huge_nth']
        text = f':{pseudo}({a_}n{b_:+d})'
        comp = sv.compile(text)
        budget = 4000 * (len(els) + 5)
        n += 1
        try:
            steps = run_with_step_budget(lambda: comp.select(doc.top()), budget)
            met.add('huge-nth')
        except StepBudget:
            fails.append(('matching-does-not-terminate-in-step-budget',
                          f'select({text!r}) on a tree of {len(els)} elements exceeded {budget} traced steps'))
        except Exception as e:  # noqa: BLE001
            fails.append((f'raises-{type(e).__name__}-{where(e)}', f'select({text!r}): {e!r:.150}'))
    # non-Tag targets: TypeError and nothing else
    comp = sv.compile('a')
    for bad in (None, 'text', NavigableString('x'), 5, 1.5, b'x', [], {}):
        for name, fn in (('select', lambda b=bad: comp.select(b)), ('match', lambda b=bad: comp.match(b)),
                         ('closest', lambda b=bad: comp.closest(b)), ('select_one', lambda b=bad: comp.select_one(b)),
                         ('iselect', lambda b=bad: list(comp.iselect(b))),
                         ('module-match', lambda b=bad: sv.match('a', b))):
            n += 1
            try:
                fn()
                fails.append((f'{name}-non-tag-accepted', f'{name}({bad!r}) returned instead of raising TypeError'))
            except TypeError:
                pass
            except Exception as e:  # noqa: BLE001
                fails.append((f'{name}-non-tag-raises-{type(e).__name__}', f'{name}({bad!r}): {e!r:.200}'))
    try:
        n += 1
        comp.filter([5, None])
        fails.append(('filter-non-tag-items-accepted', 'filter([5, None]) returned'))
    except TypeError:
        pass
    except Exception as e:  # noqa: BLE001
        fails.append((f'filter-non-tag-raises-{type(e).__name__}', repr(e)[:200]))
    return fails, n, met


def replay(case):
    fails, _n, _m = evaluate(case)
    return fails[0] if fails else None


def shard(ctx):
    col = common.Collector()
    tier = ctx['tier']

    def body(ch):
        case = gen_case(ch, tier)
        fails, n, met = evaluate(case)
        col.count(n)
        col.classify('doc:' + case['flavour'])
        if case['odd']:
            col.classify('odd-attribute-values')
        if case['tree'].get('detach'):
            col.classify('detached')
        for m in met:
            col.classify('met:' + m)
        if met:
            col.nontrivial_case([case['tree'], case['sels'], case['odd']],
                                {'doc': case['flavour'], 'selectors': case['sels'], 'met': sorted(met),
                                 'markup': trees.markup(case['tree'])[:300]})
        for b, d in fails[:3]:
            col.fail(b, case, d)

    ex = common.hyp_run(choose.choices(4096), body, 40000 if tier == 'quick' else 4000000, ctx['hseed'],
                        deadline_ts=ctx['t_end'])
    col.extra['budget_exhausted'] = int(ex)
    col.extra['slow_calls_inconclusive'] = [x[:200] for x in SLOW[:5]]
    return col
