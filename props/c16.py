"""C16 - importing works in either order and Beautiful Soup can always select (generated import programs)."""
from __future__ import annotations

import itertools
import json
import os
import subprocess
import sys
import tempfile
import time

from engine import choose, common

ID = 'C16'
BUDGET = {'quick': 60, 'thorough': 900}
META = {
    'rule': 'programs = ordered sequences of 1-4 distinct import statements over bs4 / soupsieve and their submodules, '
            'followed by a fixed epilogue that imports what is missing and runs BeautifulSoup(markup, parser).select(sel) '
            'and soupsieve.select(sel, soup) for several (markup, parser, selector) triples; each program runs in a '
            'fresh interpreter (python -c, neutral cwd). All sequences of length <= 2 (quick) / <= 3 (thorough) are '
            'enumerated; longer ones are drawn by Hypothesis. Oracle: exit status 0, stdout is exactly one JSON line '
            'equal to the line of the reference program (import soupsieve first), bs4\'s and soupsieve\'s answers agree, '
            'stderr is empty, and no warning is recorded whose file lies in the soupsieve package. Non-trivial: the '
            'first imported module is not soupsieve itself, or a submodule is imported before its package; distinct by '
            'program',
    'assumptions': ['the interpreter is /venv/bin/python; PYTHONPATH puts the repository under test first'],
}

STATEMENTS = [
    'import bs4', 'from bs4 import BeautifulSoup', 'import bs4.element', 'import bs4.css', 'import soupsieve',
    'import soupsieve as sv', 'from soupsieve import css_match', 'import soupsieve.css_parser', 'import soupsieve.css_types',
    'import soupsieve.util', 'import soupsieve.pretty', 'from soupsieve import __meta__',
    'from soupsieve import *', 'from bs4 import *',
]
PROLOGUE = (
    'import sys, warnings, json, os\n'
    '_cw = warnings.catch_warnings(record=True)\n'
    '_w = _cw.__enter__()\n'
    'warnings.simplefilter("always")\n'
    # process-wide settings an import has no business touching (sys.meta_path is left out: six, which html5lib pulls in,
    # registers an importer there)
    'import logging, signal, locale, gc, threading, atexit, builtins, decimal\n'
    'def _snap():\n'
    '    return {\n'
    '        "warnings.filters": [repr(f) for f in warnings.filters], "warnings.showwarning": id(warnings.showwarning),\n'
    '        "sys.path": list(sys.path), "os.environ": sorted(os.environ.items()), "cwd": os.getcwd(),\n'
    '        "recursionlimit": sys.getrecursionlimit(), "excepthook": id(sys.excepthook), "displayhook": id(sys.displayhook),\n'
    '        "stdio": [id(sys.stdout), id(sys.stderr), id(sys.stdin)],\n'
    '        "logging.root": [len(logging.root.handlers), logging.root.level, logging.root.manager.disable, logging.raiseExceptions],\n'
    '        "signals": [repr(signal.getsignal(s)) for s in (signal.SIGINT, signal.SIGALRM, signal.SIGTERM, signal.SIGVTALRM, signal.SIGUSR1)],\n'
    '        "locale": locale.setlocale(locale.LC_ALL), "switchinterval": sys.getswitchinterval(),\n'
    '        "gc": [gc.isenabled(), gc.get_threshold()], "threads": threading.active_count(), "atexit": atexit._ncallbacks(),\n'
    '        "path_hooks": len(sys.path_hooks), "builtins": sorted(dir(builtins)), "trace": [repr(sys.gettrace()), repr(sys.getprofile())],\n'
    '        "decimal": repr(decimal.getcontext()), "umask": (lambda m: (os.umask(m), m)[1])(os.umask(0)),\n'
    '        "int_max_str_digits": sys.get_int_max_str_digits(), "dont_write_bytecode": sys.dont_write_bytecode,\n'
    '    }\n'
    '_s0 = _snap()\n'
)
EPILOGUE = r'''
_s1 = _snap()
_state = [[k, repr(_s0[k])[:300], repr(_s1[k])[:300]] for k in _s0 if _s0[k] != _s1[k]]
import bs4, soupsieve
from bs4 import BeautifulSoup
_pkg = os.path.dirname(os.path.realpath(soupsieve.__file__))
assert _pkg == os.path.realpath(os.path.join(os.environ["C16_REPO"], "soupsieve")), _pkg
_out = []
for _mk, _parser, _sel in [
    ('<div><p id="1" class="a">x</p><p id="2">y<span id="3"></span></p></div>', 'html.parser', 'div > p.a, span'),
    ('<ul><li id="1"/><li id="2"/><li id="3"/></ul>', 'html.parser', 'li:nth-child(2n+1)'),
    ('<html><body><input id="1" type="checkbox" checked><input id="2"></body></html>', 'html.parser', ':checked, :root'),
    ('<r xmlns:x="urn:x"><x:a id="1"/><a id="2"/></r>', 'xml', 'a'),
    ('<p id="1" lang="en">t</p>', 'html5lib', 'p:lang(en):-soup-contains(t)'),
    ('<!DOCTYPE html><html id="h"><body><p id="1"><!-- x --></p><div id="2">a<!--secret--></div><p id="3"><![CDATA[c]]></p></body></html>',
     'html.parser', 'p:empty, :root, div:-soup-contains(secret), p:-soup-contains-own(c)'),
    ('<?xml version="1.0"?><!DOCTYPE r><r id="r"><?pi x?><a id="1"><!--c--></a><b id="2" dir="auto">x</b></r>', 'xml', 'a:empty, :root, b:dir(ltr)'),
    ('<form id="f"><input id="1" type="radio" name="g"><input id="2" type="submit"><input id="3" type="number" min="1" value="0"></form>',
     'lxml', ':indeterminate, :default, :out-of-range, :enabled'),
    # the document binds the prefixes 'html' and 'svg' to URIs of its own (Beautiful Soup forwards the prefixes it saw)
    ('<html xmlns="http://www.w3.org/1999/xhtml" xmlns:html="http://www.w3.org/TR/REC-html40" xmlns:svg="urn:not-svg"><body>'
     '<a id="1" href="u">x</a><a id="2">y</a><input id="3" type="checkbox" checked="checked"/><input id="4" required="required"/>'
     '<html:a id="5" href="u"/><svg:a id="6" href="u"/><button id="7" disabled="disabled"/></body></html>',
     'xml', ':link, :checked, :required, :disabled, input:enabled'),
    # namespace forms that need no prefix: Beautiful Soup passes the (never empty) prefix map it collected, soupsieve.select none
    ('<feed xmlns:dc="urn:dc"><title id="1">a</title><dc:title id="2">b</dc:title><entry><title id="3"/></entry></feed>', 'xml',
     '|title, *|entry > |title'),
    ('<feed xmlns="urn:f" xmlns:dc="urn:dc"><title id="1">a</title><dc:title id="2">b</dc:title><x xmlns="" id="3"/></feed>', 'xml',
     '|title, |x, *|title:first-child'),
    # a prefix that is not a CSS identifier as it stands (Beautiful Soup forwards it raw; a selector writes it escaped)
    ('<root xmlns:dc.terms="urn:dc" xmlns:a-b="urn:ab"><item id="1"/><dc.terms:item id="2"/><a-b:item id="3"/></root>', 'xml',
     'item, dc\\.terms|item'),
    ('<div id="1"><p id="2"></p></div>', 'lxml', '|div, |p, *|p'),
    ('<div id="1"><svg id="2"><circle id="3"></circle></svg></div>', 'html5lib', '|div, |circle, *|circle, |svg'),
]:
    _soup = BeautifulSoup(_mk, _parser)
    _a = [e.get('id') for e in _soup.select(_sel)]
    _b = [e.get('id') for e in soupsieve.select(_sel, _soup)]
    _c = _soup.select_one(_sel)
    _out.append([_a, _b, _c.get('id') if _c is not None else None])
# the same document under every HTML tree builder: each forwards its own prefix map to soupsieve ({} or {'xml': ...})
for _parser in ('html.parser', 'lxml', 'html5lib'):
    _soup = BeautifulSoup('<html lang="de"><body><p id="1" lang="en">a</p><div id="d" dir="rtl"><p id="2"><b id="3">x</b></p></div>'
                          '<p id="4" lang="fr-CA">c</p><input id="5" type="checkbox" checked><a id="6" href="u">l</a></body></html>', _parser)
    for _sel in ('p:lang(en), :lang(de) b', 'p:not(:lang(fr))', ':dir(rtl) > p, :checked, :link', 'p:lang("*-CA"), [lang|=en]'):
        _a = [e.get('id') for e in _soup.select(_sel)]
        _b = [e.get('id') for e in soupsieve.select(_sel, _soup)]
        _c = _soup.select_one(_sel)
        _out.append([_a, _b, _c.get('id') if _c is not None else None])
# optional arguments travel through Beautiful Soup's glue code (which passes them positionally)
_soup = BeautifulSoup('<ul><li id="1"/><li id="2"/><li id="3"/><li id="4"/></ul>', 'html.parser')
for _lim in (1, 2, 3, 0):
    _a = [e.get('id') for e in _soup.select('li', limit=_lim)]
    _b = [e.get('id') for e in soupsieve.select('li', _soup, limit=_lim)]
    _i = [e.get('id') for e in _soup.css.iselect('li', limit=_lim)] if hasattr(_soup, 'css') else _a
    _out.append([_a, _b, _a[0] if _a else None])
    _out.append([_i, _b, _i[0] if _i else None])
_NS = {'xlink': 'http://www.w3.org/1999/xlink', 'svg': 'http://www.w3.org/2000/svg', 'x': 'urn:x'}
for _mk, _parser, _sel in [
    ('<r xmlns:xlink="http://www.w3.org/1999/xlink" xmlns:x="urn:x"><a id="1" xlink:href="u"/><a id="2" href="u"/><x:b id="3" xml:lang="de"/></r>',
     'xml', '[xlink|href], x|b:lang(de), [*|href]:not([|href])'),
    ('<html><body><svg><a id="1" xlink:href="u"></a><circle id="2"></circle></svg><a id="3" href="u"></a></body></html>',
     'html5lib', '[xlink|href], svg|circle, [*|href]'),
]:
    _soup = BeautifulSoup(_mk, _parser)
    _a = [e.get('id') for e in _soup.select(_sel, namespaces=_NS)]
    _b = [e.get('id') for e in soupsieve.select(_sel, _soup, namespaces=_NS)]
    _c = _soup.select_one(_sel, namespaces=_NS)
    _out.append([_a, _b, _c.get('id') if _c is not None else None])
# the same namespaces dict object, re-bound in place between two calls
_soup = BeautifulSoup('<r xmlns:a="urn:one" xmlns:b="urn:two"><a:item id="1"/><b:item id="2"/><a:item id="3"/></r>', 'xml')
_map = {'p': 'urn:one'}
_first = [e.get('id') for e in _soup.select('p|item', namespaces=_map)]
_map['p'] = 'urn:two'
_a = [e.get('id') for e in _soup.select('p|item', namespaces=_map)]
_b = [e.get('id') for e in soupsieve.select('p|item', _soup, namespaces=dict(_map))]
_c = _soup.select_one('p|item', namespaces=_map)
_out.append([_first + ['|'] + _a, _first + ['|'] + _b, None if not _a else ('1' if False else _first[0])])
_out.append([_a, _b, _c.get('id') if _c is not None else None])
_cw.__exit__(None, None, None)
_bad = [[str(x.category.__name__), str(x.message)[:80], x.filename] for x in _w if os.path.realpath(x.filename).startswith(_pkg)]
sys.stdout.write(json.dumps({'results': _out, 'warnings': _bad, 'state': _state}) + '\n')
'''


def program_text(stmts):
    return PROLOGUE + '\n'.join(stmts) + '\n' + EPILOGUE


def run_program(stmts, workdir):
    env = dict(os.environ, PYTHONPATH=common.REPO, C16_REPO=common.REPO, PYTHONDONTWRITEBYTECODE='1')
    env.pop('PYTHONWARNINGS', None)
    p = subprocess.run([sys.executable, '-c', program_text(stmts)], cwd=workdir, env=env, capture_output=True, text=True,
                       timeout=120)
    return p.returncode, p.stdout, p.stderr


_ref = [None]


def reference(workdir):
    if _ref[0] is None:
        rc, out, err = run_program(['import soupsieve'], workdir)
        _ref[0] = (rc, out, err)
    return _ref[0]


def judge(stmts, workdir):
    rc, out, err = run_program(stmts, workdir)
    ref = reference(workdir)
    fails = []
    if rc != 0:
        last = err.strip().splitlines()[-1] if err.strip() else ''
        kind = last.split(':')[0][:40] if last else 'nonzero-exit'
        return [(f'import-program-fails-{kind}', f'program {stmts} exits {rc}: {last[:300]}')]
    if err.strip():
        fails.append(('stderr-not-empty', f'program {stmts}: stderr {err.strip()[:300]!r}'))
    lines = out.splitlines()
    if len(lines) != 1:
        fails.append(('stdout-not-exactly-one-line', f'program {stmts}: stdout {out[:300]!r}'))
        return fails
    try:
        data = json.loads(lines[0])
    except ValueError:
        return fails + [('stdout-not-json', f'program {stmts}: {lines[0][:200]!r}')]
    if data.get('state'):
        fails.append(('import-changes-interpreter-state', f'program {stmts}: {data["state"][0][0]} before {data["state"][0][1][:150]} after {data["state"][0][2][:150]}'))
    if data['warnings']:
        fails.append(('import-warns', f'program {stmts}: {data["warnings"][:2]}'))
    for a, b, c in data['results']:
        if a != b or (a and c != a[0]) or (not a and c is not None):
            fails.append(('bs4-and-soupsieve-disagree', f'program {stmts}: {a} vs {b} / select_one {c}'))
            break
    if ref[0] == 0 and ref[1].splitlines() and json.loads(ref[1].splitlines()[0])['results'] != data['results']:
        fails.append(('result-depends-on-import-order', f'program {stmts}: {data["results"]} vs reference'))
    return fails


def nontrivial(stmts):
    first = stmts[0]
    if first not in ('import soupsieve', 'import soupsieve as sv'):
        return True
    return False


def replay(case):
    with tempfile.TemporaryDirectory(prefix='c16') as wd:
        fails = judge(case['program'], wd)
    return fails[0] if fails else None


def shrink(case, still, cap):
    prog = list(case['program'])
    i = 0
    t_end = time.time() + cap
    while len(prog) > 1 and i < len(prog) and time.time() < t_end:
        c2 = {'program': prog[:i] + prog[i + 1:]}
        if still(c2):
            prog = c2['program']
        else:
            i += 1
    return {'program': prog}


def shard(ctx):
    col = common.Collector()
    tier = ctx['tier']
    k, nsh = ctx['shard'], ctx['nshards']
    maxlen = 2 if tier == 'quick' else 3
    progs = []
    for n in range(1, maxlen + 1):
        progs.extend(itertools.permutations(STATEMENTS, n))
    with tempfile.TemporaryDirectory(prefix='c16') as wd:
        complete = True

        def one(stmts):
            fails = judge(list(stmts), wd)
            col.count()
            col.classify(f'length:{len(stmts)}', 'first:' + stmts[0].split()[1].split('.')[0])
            if nontrivial(stmts):
                col.nontrivial_case(list(stmts), {'program': list(stmts)})
            for b, d in fails[:2]:
                col.fail(b, {'program': list(stmts)}, d)

        for i, stmts in enumerate(progs):
            if i % nsh != k:
                continue
            if time.time() > ctx['t_end'] - 2:
                col.extra['budget_exhausted'] = 1
                complete = False
                break
            one(stmts)
        col.extra['enumeration_complete'] = int(complete)

        def body(ch):
            n = ch.i(maxlen + 1, 4)
            pool = list(STATEMENTS)
            stmts = [pool.pop(ch.i(0, len(pool) - 1)) for _ in range(n)]
            one(tuple(stmts))

        ex = common.hyp_run(choose.choices(16), body, 25 if tier == 'quick' else 4000, ctx['hseed'],
                            deadline_ts=ctx['t_end'] - 1)
        col.extra['random_budget_exhausted'] = int(ex)
    return col


def evidence_extra(merged):
    return {'exhaustive': merged['extra'].get('enumeration_complete', 0) == len(merged.get('shard_wall', [])),
            'statements': STATEMENTS}


def selftest():
    with tempfile.TemporaryDirectory(prefix='c16') as wd:
        rc, out, err = reference(wd)
    # the reference program itself failing is a property violation reported by the shards, not a harness error
    return None
