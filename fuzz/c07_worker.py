#!/venv/bin/python
"""E7 - CPU-time worker for C07: reads JSON lines {op, ...}, answers {"t": cpu_seconds}. Killable by the parent."""
import json
import os
import sys
import time
import warnings

sys.path.insert(0, os.environ.get('VERIF_REPO', '/repo'))
import soupsieve as sv  # noqa: E402
import bs4  # noqa: E402
from soupsieve import css_match, css_parser, pretty, util  # noqa: E402

warnings.simplefilter('ignore')


def regex_table():
    out = {}
    for mod in (css_parser, css_match, util, pretty):
        for name, val in vars(mod).items():
            if hasattr(val, 'pattern') and hasattr(val, 'match'):
                out[f'{mod.__name__.split(".")[-1]}.{name}'] = val
    for tok in css_parser.CSSParser.css_tokens:
        if hasattr(tok, 'patterns'):
            for k, p in tok.patterns.items():
                out[f'token.special{k}'] = p.re_pattern
            out['token.special_name'] = tok.re_pseudo_name
        else:
            out[f'token.{tok.name}'] = tok.re_pattern
    return out


REGEXES = regex_table()
_docs = {}


def run(req):
    op = req['op']
    if op == 'list-regexes':
        return {'names': sorted(REGEXES)}
    if op == 'compile':
        text = req['text']
        sv.purge()
        t = time.process_time()
        try:
            sv.compile(text)
        except Exception:  # noqa: BLE001
            pass
        return {'t': time.process_time() - t}
    if op == 'regex':
        rx = REGEXES[req['name']]
        text = req['text']
        t = time.process_time()
        getattr(rx, req.get('how', 'match'))(text)
        if req.get('how', 'match') == 'match':
            rx.search(text)
        return {'t': time.process_time() - t}
    if op == 'select':
        # attribute value / text on the match side
        soup = bs4.BeautifulSoup('', 'html.parser')
        tag = soup.new_tag(req.get('tag', 'input'), attrs=req['attrs'])
        soup.append(tag)
        if req.get('text'):
            tag.append(req['text'])
        comp = sv.compile(req['selector'])
        t = time.process_time()
        comp.select(soup)
        return {'t': time.process_time() - t}
    if op == 'compile-custom':
        n, shape = req['n'], req['shape']
        body = {'fib': ':--c{a}, :--c{b}', 'nest': ':is(:--c{a}) > :--c{b}', 'not': 'p:not(:--c{a}):--c{b}',
                'line': 'p > :--c{a}', 'double': 'p:--c{a}, :--c{a}.x', 'twice': ':--c{a}:--c{a}'}[shape]
        custom = {f':--c{i}': body.format(a=i + 1, b=i + 2) for i in range(n)}
        custom[f':--c{n}'] = 'a'
        custom[f':--c{n + 1}'] = 'b'
        sv.purge()
        t = time.process_time()
        try:
            sv.compile(':--c0', custom=custom)
        except Exception:  # noqa: BLE001
            pass
        return {'t': time.process_time() - t, 'chars': sum(len(k) + len(v) for k, v in custom.items())}
    if op == 'escape':
        t = time.process_time()
        sv.escape(req['text'])
        return {'t': time.process_time() - t}
    raise ValueError(op)


def main():
    for line in sys.stdin:
        req = json.loads(line)
        try:
            res = run(req)
        except Exception as e:  # noqa: BLE001
            res = {'t': 0.0, 'error': repr(e)}
        sys.stdout.write(json.dumps(res) + '\n')
        sys.stdout.flush()


if __name__ == '__main__':
    main()
