"""E2 (respelling mode) - render a selector AST with CSS-insignificant lexical variation (C09, C20).

Every variation is applied at a *site*; sites are numbered in rendering order.  mode 'all': every site varies
with probability p; mode 'single': exactly the site with index `target` varies (delta case), so that a failure
names the rule and the position.
"""
from __future__ import annotations

from . import selast as S

WS_CHARS = [' ', '\t', '\n', '\r\n', '\r', '\f']
COMMENTS = ['/**/', '/* x */', '/***/', '/*/*/', '/* * / */', '/* a\n b */', '/*>*/', '/*,*/', '/*"*/', '/*\\*/']
HEXD = '0123456789abcdefABCDEF'


class Respeller:
    def __init__(self, ch, mode='all', p=0.35, target=-1, pseudo_name_escapes=True):
        self.ch = ch
        self.mode = mode
        self.p = p
        self.target = target
        self.n = 0
        self.applied = []   # (site index, kind)
        self.pseudo_name_escapes = pseudo_name_escapes

    # ---- site bookkeeping
    def vary(self, kind):
        i = self.n
        self.n += 1
        if self.mode == 'none':
            return False
        if self.mode == 'single':
            hit = i == self.target
        else:
            hit = self.ch.p(self.p)
        if hit:
            self.applied.append((i, kind))
        return hit

    # ---- whitespace / comments
    def wsc(self, kind, need_ws=False, default=''):
        """A run of whitespace/comments. need_ws: must contain >= 1 real whitespace character."""
        if not self.vary('wsc:' + kind):
            return default
        ch = self.ch
        parts = []
        for _ in range(ch.i(1, 4)):
            parts.append(ch.pick(WS_CHARS) if ch.p(0.6) else ch.pick(COMMENTS))
        if need_ws and not any(p in WS_CHARS for p in parts):
            parts.insert(ch.i(0, len(parts)), ch.pick(WS_CHARS))
        return ''.join(parts)

    # ---- identifiers
    def hex_escape(self, c, nxt):
        o = ord(c)
        digits = '%x' % o
        width = self.ch.i(len(digits), 6)
        digits = digits.rjust(width, '0')
        if self.ch.p(0.5):
            digits = digits.upper()
        if width == 6 and nxt is not None and nxt not in HEXD and nxt not in ' \t\n\r\f' and self.ch.p(0.5):
            return '\\' + digits
        return '\\' + digits + self.ch.pick([' ', ' ', '\t', '\n', '\r\n', '\f'])

    def ident(self, s, kind='ident'):
        canon = S.ident(s)
        if not self.vary('esc:' + kind):
            return canon
        out = []
        n = len(s)
        picked = False
        for i, c in enumerate(s):
            o = ord(c)
            nxt = s[i + 1] if i + 1 < n else None
            raw_ok = (S._is_name(c) and not ('0' <= c <= '9' and (i == 0 or (i == 1 and s[0] == '-')))
                      and not (c == '-' and n == 1) and not (0x80 <= o <= 0x9f))
            if c == '-' and i == 1 and s[0] == '-':
                raw_ok = True
            bs_ok = c not in HEXD and c not in '\n\r\f' and o != 0
            forms = []
            if raw_ok:
                forms.append('raw')
            if bs_ok:
                forms.append('bs')
            if o != 0:
                forms.append('hex')
            last = i == n - 1
            want_change = self.ch.p(0.4) or (last and not picked)
            form = 'raw' if raw_ok and not want_change else self.ch.pick([f for f in forms if f != 'raw'] or forms)
            if o == 0:
                out.append('\ufffd')
            elif form == 'raw':
                out.append(c)
            elif form == 'bs':
                out.append('\\' + c)
                picked = True
            else:
                out.append(self.hex_escape(c, nxt))
                picked = True
        return ''.join(out)

    def string(self, s, kind='value'):
        """A value: quoted either way or (when possible) a bare identifier."""
        if not self.vary('quote:' + kind):
            return S.cssstring(s)
        ch = self.ch
        form = ch.pick(['dq', 'sq', 'ident'])
        if form == 'ident' and s != '' and '\x00' not in s:
            return self.ident_forced(s)
        q = "'" if form == 'sq' else '"'
        out = [q]
        for i, c in enumerate(s):
            o = ord(c)
            nxt = s[i + 1] if i + 1 < len(s) else None
            if c == q or c == '\\':
                out.append('\\' + c if ch.p(0.7) else self.hex_escape(c, nxt))
            elif o == 0:
                out.append('\ufffd')
            elif c in '\n\r\f':
                out.append(self.hex_escape(c, nxt))
            elif ch.p(0.15):
                if c not in HEXD and ch.p(0.5):
                    out.append('\\' + c)
                else:
                    out.append(self.hex_escape(c, nxt))
            else:
                out.append(c)
            if ch.p(0.05):
                out.append('\\' + ch.pick(['\n', '\r\n', '\f', '\r']))   # line continuation
        out.append(q)
        return ''.join(out)

    def ident_forced(self, s):
        """Identifier spelling of an arbitrary non-empty string (escapes where needed, sometimes where not)."""
        if self.ch.p(0.5):
            return S.ident(s)
        return Respeller(self.ch, 'all', 1.0).ident(s)

    def casevary(self, word, kind):
        if not self.vary('case:' + kind):
            return word
        r = self.ch.i(0, 2)
        if r == 0:
            return word.upper()
        if r == 1:
            return word.capitalize()
        return ''.join(c.upper() if self.ch.p(0.5) else c for c in word)

    def pname(self, name):
        """Pseudo-class name: case and (sometimes) escapes."""
        w = self.casevary(name, 'pseudo-name')
        if self.pseudo_name_escapes and self.vary('esc:pseudo-name'):
            i = self.ch.i(0, len(w) - 1)
            c = w[i]
            nxt = w[i + 1] if i + 1 < len(w) else None
            if c not in HEXD and c != '-' and self.ch.p(0.5):
                return w[:i] + '\\' + c + w[i + 1:]
            if not (c == '-' and i == 0):
                return w[:i] + self.hex_escape(c, nxt) + w[i + 1:]
        return w

    # ---- rendering
    def nsprefix(self, ns):
        if ns is None:
            return ''
        if ns == '*':
            return '*|'
        if ns == '':
            return '|'
        return self.ident(ns, 'ns-prefix') + '|'

    def anb(self, a, b):
        # (alternative An+B forms such as `3` for `0n+3` change the compiled structure and are C02's business)
        text = '%dn%+d' % (a, b)
        if (a, b) == (2, 0) and self.vary('anb-keyword'):
            text = 'even'
        if (a, b) == (2, 1) and self.vary('anb-keyword'):
            text = 'odd'
        if text in ('even', 'odd'):
            return self.casevary(text, 'even-odd')
        # whitespace around the inner sign (only valid after 'n')
        if 'n' in text and len(text) > text.index('n') + 1:
            head, tail = text[:text.index('n') + 1], text[text.index('n') + 1:]
            sign, mag = tail[0], tail[1:]
            text = head + self.wsc('anb-sign-before') + sign + self.wsc('anb-sign-after') + mag
        if 'n' in text and self.vary('case:n'):
            text = text.replace('n', 'N')
        return text

    def values(self, vals, kind):
        out = []
        for i, v in enumerate(vals):
            if i:
                out.append(self.wsc(kind + '-comma-before') + ',' + self.wsc(kind + '-comma-after', default=' '))
            out.append(self.string(v, kind))
        return ''.join(out)

    def pseudo(self, p):
        n = p['p']
        if n in S.LOGICAL:
            name = p.get('alias', n)
            return (':' + self.pname(name) + '(' + self.wsc('paren-open') + self.slist(p['args'], inner=True) +
                    self.wsc('paren-close') + ')')
        if n in S.NTH:
            s = ':' + self.pname(n) + '(' + self.wsc('paren-open') + self.anb(p['a'], p['b'])
            if p.get('of') is not None:
                before = self.wsc('of-before', need_ws=True, default=' ')
                after = self.wsc('of-after', need_ws=True, default=' ')
                # `COMMENTS* WS WSC* of COMMENTS* WS WSC*`: a comment may not directly follow whitespace-less `of`
                s += before + self.casevary('of', 'of') + after + self.slist(p['of'], inner=True)
            return s + self.wsc('paren-close') + ')'
        if n == 'contains':
            name = p.get('alias') or ('-soup-contains-own' if p.get('own') else '-soup-contains')
            return (':' + self.pname(name) + '(' + self.wsc('paren-open') + self.values(p['vals'], 'contains') +
                    self.wsc('paren-close') + ')')
        if n == 'lang':
            return (':' + self.pname('lang') + '(' + self.wsc('paren-open') + self.values(p['vals'], 'lang') +
                    self.wsc('paren-close') + ')')
        if n == 'dir':
            return (':' + self.pname('dir') + '(' + self.wsc('paren-open') + self.casevary(p['d'], 'dir-arg') +
                    self.wsc('paren-close') + ')')
        if n == 'amp':
            return '&'
        if n == 'custom':
            # the leading `--` is what selects the custom-name token; it stays literal
            rest = p['name'][2:]
            return ':--' + (self.ident(rest, 'custom-name') if rest else '')
        if n == 'nomatch-fn':
            return (':' + self.pname(p['name']) + '(' + self.wsc('paren-open') + self.slist(p['args'], inner=True) +
                    self.wsc('paren-close') + ')')
        if n == 'nomatch':
            return ':' + self.pname(p['name'])
        return ':' + self.pname(n)

    def attr(self, a):
        s = '[' + self.wsc('bracket-open') + self.nsprefix(a.get('ns')) + self.ident(a['name'], 'attr-name')
        if a.get('op'):
            s += self.wsc('op-before') + a['op'] + self.wsc('op-after')
            val = self.string(a['val'], 'attr-value')
            s += val
            if a.get('flag'):
                bare = not val.startswith(('"', "'"))
                s += self.wsc('flag-before', need_ws=bare, default=' ') + self.casevary(a['flag'], 'flag')
        return s + self.wsc('bracket-close') + ']'

    def compound(self, c):
        out = []
        t = c.get('tag')
        if t is not None:
            out.append(self.nsprefix(t.get('ns')) + ('*' if t['name'] == '*' else self.ident(t['name'], 'tag')))
        for i in c.get('ids', []):
            out.append('#' + self.ident(i, 'id'))
        for k in c.get('classes', []):
            out.append('.' + self.ident(k, 'class'))
        for a in c.get('attrs', []):
            out.append(self.attr(a))
        for p in c.get('ps', []):
            out.append(self.pseudo(p))
        if not out:
            out.append('*')
        return ''.join(out)

    def complex(self, cx):
        out = []
        for i, part in enumerate(cx):
            comb = part.get('comb')
            if i == 0:
                if comb and comb != ' ':
                    out.append(comb + self.wsc('has-lead-after', default=' '))
            elif comb == ' ':
                out.append(self.wsc('descendant', need_ws=True, default=' '))
            else:
                out.append(self.wsc('comb-before', default=' ') + comb + self.wsc('comb-after', default=' '))
            out.append(self.compound(part['c']))
        return ''.join(out)

    def slist(self, sl, inner=False):
        out = []
        for i, c in enumerate(sl):
            if i:
                out.append(self.wsc('comma-before') + ',' + self.wsc('comma-after', default=' '))
            out.append(self.complex(c))
        return ''.join(out)

    def pattern(self, sl):
        return self.wsc('start') + self.slist(sl) + self.wsc('end')
