"""C06 - compile() accepts or rejects every string with a documented error only."""
from __future__ import annotations

import os
import subprocess
import sys
import time
import warnings

import soupsieve as sv

from engine import choose, common, fullgrammar as FG, selast as S

ID = 'C06'
BUDGET = {'quick': 50, 'thorough': 900}
META = {
    'rule': 'generators: (a) arbitrary Unicode text <=200 chars incl. NUL, surrogates, astral; (b) a valid rendered '
            'full-grammar selector with 1-4 edits (delete/duplicate/transpose/truncate/insert hostile token); '
            '(c) custom maps with well-formed, malformed, escaped, case-colliding names and valid/malformed/cyclic '
            'definitions; (d) atheris coverage-guided bytes -> (pattern, custom map). Oracle: compile returns a '
            'SoupSieve or raises SelectorSyntaxError, NotImplementedError (only with "@" or "::" in the text) or - '
            'custom maps only - KeyError for colliding names; anything else is a violation. Non-trivial: the input '
            'is accepted or rejected after position 0 (i.e. the tokenizer recognised at least one token); distinct '
            'by input text',
    'assumptions': ['nesting <= 60 parentheses and <= 100 combinators (CPython recursion budget is the documented '
                    'out-of-domain region)', 'hangs are judged by C07, not here'],
}

HOSTILE = ['\\', '\\0', '\\110000', '\\d800', '\\ffffff', '\\ffffff0', '"', "'", '[', ']', '(', ')', '/*', '*/', ':',
           '::', '@', '|', '*', ',', '>', '+', '~', '!', '=', '\n', '\r\n', '\f', '\x00', '￿', '\\\n', '\\\r',
           '#', '.', '&', ':is(', ':not(', ':has(', ':nth-child(', ' of ', ':lang(', ':dir(', ':-soup-contains(',
           '--', ':--', '\\)', 'n', '-n', '+', '\ud800', '\U0010ffff', '^=', '$=', '|=', '~=', ' i]', '@page', '@P',
           '::before', '\t', '{', '}', '%', '2n+1', 'even', '0x', '\\26 ',
           # complete comments, also straight after a hex escape (where the grammar allows white space *or* a comment)
           '/**/', '/* c */', '\\41/**/', '\\a /**/', '\\10ffff/***/',
           # decimal digits that are not ASCII (\d matches them, [0-9] does not), alone and as An+B arguments
           '\u0663', '\uff12', '\u0967\u0966', ':nth-child(\u0663)', ':nth-last-of-type(-\u0be8n + 3)', '\u0662n+1']

ALLOWED = (sv.SelectorSyntaxError, NotImplementedError)
CUSTOM_OK = {':--foo': 'p > a', ':--bar': ':--foo:is(b)'}
CFG = FG.Cfg(ns_forms=True, prefixes=('svg', 'x'), custom=('--foo', '--Bar'), contains_alias=True, big_nth=True)


def gen_valid(ch):
    return S.render_list(FG.gen_list(ch, CFG))


def mutate(ch, text):
    s = list(text)
    for _ in range(ch.i(1, 4)):
        op = ch.i(0, 6)
        pos = ch.i(0, len(s)) if s else 0
        if op == 0 and s:
            del s[min(pos, len(s) - 1)]
        elif op == 1 and s:
            p = min(pos, len(s) - 1)
            s.insert(p, s[p])
        elif op == 2 and len(s) > 1:
            p = min(pos, len(s) - 2)
            s[p], s[p + 1] = s[p + 1], s[p]
        elif op == 3 and s:
            s = s[:pos]
        elif op == 4:
            s[pos:pos] = list(ch.pick(HOSTILE))
        elif op == 5:
            s[pos:pos] = [chr(ch.codepoint(True))]
        else:
            tok = ch.pick(HOSTILE)
            n = ch.i(1, 12)
            s[pos:pos] = list(tok * n)
    return ''.join(s)[:400]


NAME_POOL = [':--foo', ':--Foo', ':--FOO', ':--bar', ':--b\\61r', ':--b\\61 r', ':--b\\41r', ':--\\46oo', ':-x', '--x', ':--', '', ':', ':--a b',
             ':--\\', ':--é', '::--x', ':--x(', ':--0', ':---', ':--foo\\', 'foo', ':--\\66oo', ':--f\x00o']


def spell_variant(ch, name):
    """Another spelling of the same custom name (CSS escapes after the literal `:--`, letter case)."""
    if not name.startswith(':--') or len(name) <= 3 or '\\' in name or '\x00' in name:
        return name
    from engine import respell
    rest = respell.Respeller(ch, 'all', 1.0).ident(name[3:])
    out = ':--' + rest
    return out.upper() if ch.p(0.2) and '\\' not in out else out


def gen_custom(ch):
    m = {}
    if ch.p(0.4):
        # reference graphs among the map's own names, each reference possibly spelled differently (cycles included)
        names = [ch.pick((':--a', ':--b', ':--x-y', ':--parent', ':--z9', ':--é')) for _ in range(ch.i(1, 3))]
        names = list(dict.fromkeys(names))
        for n in names:
            refs = [spell_variant(ch, ch.pick(names)) if ch.p(0.8) else ch.pick((':--zzz', 'p', 'a > b')) for _ in range(ch.i(1, 2))]
            val = ch.pick(('{}', 'p{}', '{}, {}', ':is({})', ':not({} > a)', 'p:has({})')).replace('{}', refs[0], 1)
            val = val.replace('{}', refs[-1])
            m[spell_variant(ch, n) if ch.p(0.4) else n] = val
        return m
    for _ in range(ch.i(0, 4)):
        name = ch.pick(NAME_POOL) if ch.p(0.8) else ':--' + ch.text(5, surrogates=True)
        if ch.p(0.3):
            # a name that went through the same hostile edits as patterns do (escapes, comments, controls inside it)
            name = mutate(ch, name)[:40]
        r = ch.i(0, 9)
        if r <= 3:
            val = gen_valid(ch)
        elif r <= 5:
            val = mutate(ch, gen_valid(ch))
        elif r <= 8:
            val = ch.pick([':--foo', ':--bar', ':--foo, :--bar', ':is(:--bar)', ':not(:--Foo)', ':--é', ':--zzz'])
        else:
            val = ch.text(12, surrogates=True)
        m[name] = val
    return m


def gen_case(ch):
    mode = ch.weighted([(2, 'text'), (5, 'mutate'), (3, 'custom'), (1, 'valid'), (1, 'long')])
    custom = None
    if mode == 'long':
        # one token made very long (numbers beyond the interpreter's int<->str limit, huge names, long escapes)
        n = ch.pick((50, 500, 4299, 4300, 4301, 5000, 9000))
        pat = ch.pick([':nth-child({}n)', ':nth-child({})', ':nth-child(2n+{})', ':nth-last-of-type(-{}n-{})', '#i{}', '.\\{}',
                       '[a="{}"]', 'a{}', ':nth-child({} of a)', '\\{} ']).replace('{}', ch.pick('1907') * n)
    elif mode == 'text':
        pat = ch.text(ch.pick((5, 20, 200)), surrogates=True)
    elif mode == 'valid':
        pat = gen_valid(ch)
        custom = dict(CUSTOM_OK)
    elif mode == 'mutate':
        pat = mutate(ch, gen_valid(ch))
        custom = dict(CUSTOM_OK) if ch.p(0.5) else None
    else:
        custom = gen_custom(ch)
        r = ch.i(0, 3)
        if r == 0 or not custom:
            pat = gen_valid(ch)
        elif r == 1:
            pat = ', '.join(spell_variant(ch, k) if ch.p(0.5) else k for k in custom) or 'a'
        else:
            pat = ch.pick(list(custom)) + ch.pick(['', ':is(a)', ' > b', ', :--foo'])
    return {'pattern': pat, 'custom': custom, 'mode': mode}


def _norm_name(k):
    low = ''.join(chr(ord(c) + 32) if 'A' <= c <= 'Z' else c for c in k)
    try:
        from soupsieve import css_parser as cp
        un = cp.css_unescape(low)
        # names are compared case-insensitively *after* un-escaping (`:--\\41` is `:--a`)
        return ''.join(chr(ord(c) + 32) if 'A' <= c <= 'Z' else c for c in un)
    except Exception:  # noqa: BLE001
        return low


def judge(pattern, custom):
    """Return (verdict, bucket_or_None, detail)."""
    sv.purge()
    texts = [pattern] + (list(custom.values()) if custom else [])
    def do():
        with warnings.catch_warnings():
            warnings.simplefilter('ignore')
            return sv.compile(pattern, custom=custom) if custom is not None else sv.compile(pattern)

    try:
        # "returns or raises": a call that does neither is interrupted after 10 s of CPU and judged by counting steps
        kind, obj = common.guarded_call(do)
        if kind == 'hang':
            return 'bad', 'compile-does-not-return', (f'{pattern!r} custom={custom!r}: compile() burnt 10 s of CPU and then exceeded '
                                                      f'3000000 traced steps inside soupsieve')
        if kind == 'slow':
            return 'slow-inconclusive', None, ''
        if kind == 'raise':
            raise obj
    except sv.SelectorSyntaxError as e:
        pos = None
        msg = str(e)
        if getattr(e, 'line', None) is not None:
            pos = (e.line, e.col)
        return ('syntax-error-at-0' if pos == (1, 1) or pos is None and 'position 0' in msg else 'syntax-error-later'), None, ''
    except NotImplementedError as e:
        if any('@' in t or '::' in t for t in texts):
            return 'not-implemented', None, ''
        return 'bad', 'exception-NotImplementedError-without-at-or-pseudo-element', f'{pattern!r}: {e!r}'
    except KeyError as e:
        if custom:
            keys = list(custom)
            norm = [_norm_name(k) for k in keys]
            low = [k.lower() for k in keys]
            if len(set(norm)) < len(norm) or len(set(low)) < len(low):
                return 'custom-name-collision', None, ''
        return 'bad', 'exception-KeyError', f'{pattern!r} custom={custom!r}: {e!r}'
    except RecursionError as e:
        depth = max(t.count('(') for t in texts)
        combs = max(sum(t.count(c) for c in ' >+~,') for t in texts)
        if depth > 60 or combs > 100:
            return 'out-of-domain-recursion', None, ''
        return 'bad', 'exception-RecursionError', f'{pattern!r}: {e!r}'
    except Exception as e:  # noqa: BLE001
        import traceback
        tb = traceback.extract_tb(e.__traceback__)
        where = next((f'{os.path.basename(f.filename)}:{f.name}' for f in reversed(tb) if 'soupsieve' in f.filename),
                     '?')
        return 'bad', f'exception-{type(e).__name__}-{where}', f'{pattern!r} custom={custom!r}: {e!r}'
    if not isinstance(obj, sv.SoupSieve):
        return 'bad', 'wrong-return-type', f'{pattern!r}: {type(obj)}'
    return 'valid', None, ''


def replay(case):
    v, bucket, detail = judge(case['pattern'], case.get('custom'))
    if v == 'bad':
        return (bucket, detail)
    return None


def shrink(case, still, cap):
    """ddmin on the pattern string (and on custom entries)."""
    t_end = time.time() + cap
    case = dict(case)
    pat = case['pattern']
    n = 2
    while len(pat) >= 2 and time.time() < t_end:
        chunk = max(1, len(pat) // n)
        reduced = False
        for i in range(0, len(pat), chunk):
            cand = pat[:i] + pat[i + chunk:]
            c2 = dict(case, pattern=cand)
            if still(c2):
                pat = cand
                case = c2
                n = max(n - 1, 2)
                reduced = True
                break
        if not reduced:
            if chunk == 1:
                break
            n = min(n * 2, len(pat))
    if case.get('custom'):
        for k in list(case['custom']):
            c2 = dict(case, custom={a: b for a, b in case['custom'].items() if a != k})
            if still(c2):
                case = c2
    return case


def run_atheris(col, ctx):
    """Coverage-guided adjunct (E8). Runs fuzz/c06_target.py under /venv with atheris from .deps."""
    if ctx['shard'] != 0:
        return
    deps = os.path.join(common.VERIF, '.deps')
    if not os.path.isdir(os.path.join(deps, 'atheris')):
        col.notes.append('atheris not installed: coverage-guided adjunct skipped')
        col.extra['atheris_runs'] = 0
        return
    import tempfile
    budget = max(5, int(min(ctx['t_end'] - time.time() - 3, 20 if ctx['tier'] == 'quick' else 600)))
    runs = 40000 if ctx['tier'] == 'quick' else 5000000
    with tempfile.TemporaryDirectory(prefix='c06fz') as tmp:
        corpus = os.path.join(tmp, 'corpus')
        os.makedirs(corpus)
        env = dict(os.environ, PYTHONPATH=deps, VERIF_REPO=common.REPO, C06_ARTIFACTS=tmp)
        cmd = [sys.executable, os.path.join(common.VERIF, 'fuzz', 'c06_target.py'), corpus, f'-runs={runs}',
               f'-seed={ctx["seed"]}', f'-max_total_time={budget}', '-max_len=300', f'-artifact_prefix={tmp}/',
               '-print_final_stats=1', '-timeout=20']
        try:
            p = subprocess.run(cmd, env=env, capture_output=True, text=True, timeout=budget + 60)
        except subprocess.TimeoutExpired:
            col.notes.append('atheris run timed out (inconclusive)')
            return
        out = p.stdout + p.stderr
        n = 0
        for line in out.splitlines():
            if 'stat::number_of_executed_units' in line:
                try:
                    n = int(line.split(':')[-1])
                except ValueError:
                    pass
        col.extra['atheris_runs'] = n
        col.count(n)
        col.classify('atheris-executions')
        vio = os.path.join(tmp, 'violation.json')
        if os.path.exists(vio):
            import json
            with open(vio) as f:
                rec = json.load(f)
            col.fail(rec['bucket'], {'pattern': rec['pattern'], 'custom': rec['custom'], 'mode': 'atheris'},
                     rec['detail'])
        elif p.returncode != 0 and 'violation' not in out:
            col.notes.append(f'atheris exited {p.returncode}: {out[-300:]}')


def shard(ctx):
    col = common.Collector()
    tier = ctx['tier']
    t_end = ctx['t_end'] - (25 if ctx['shard'] == 0 else 0)

    def body(ch):
        case = gen_case(ch)
        v, bucket, detail = judge(case['pattern'], case['custom'])
        col.count()
        col.classify('mode:' + case['mode'], 'verdict:' + v)
        if v in ('valid', 'syntax-error-later', 'not-implemented', 'custom-name-collision'):
            col.nontrivial_case(common.stable_hash([case['pattern'], case['custom']]),
                                {'pattern': case['pattern'][:120], 'custom': case['custom'], 'verdict': v})
        if v == 'bad':
            col.fail(bucket, case, detail)

    ex = common.hyp_run(choose.choices(3072), body, 40000 if tier == 'quick' else 4000000, ctx['hseed'],
                        deadline_ts=t_end)
    col.extra['budget_exhausted'] = int(ex)
    run_atheris(col, ctx)
    return col
