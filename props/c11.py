"""C11 - name and value case rules follow the document type."""
from __future__ import annotations

import copy

import soupsieve as sv

from engine import choose, common, htmldoc, refmatch as R, selast as S, trees, witness

ID = 'C11'
BUDGET = {'quick': 50, 'thorough': 900}
META = {
    'rule': 'one logical recipe (element/attribute names and values in mixed case) is materialised as HTML '
            '(html.parser, lxml, html5lib, API-built with upper/mixed-case names), XHTML and XML (lxml-xml, API); a '
            'witness-directed selector whose names, values and flags are independently case-varied is judged on each '
            'by the reference matcher under the documented rule (HTML: names ASCII-case-insensitive, values sensitive '
            'except type; XML/XHTML: everything sensitive; i/s flags override; id/class always sensitive); the '
            'document type the reference uses is cross-checked against the flavour that was requested. HTML-only '
            'pseudo-classes are probed on XML-not-XHTML form documents and must select nothing. Non-trivial: the '
            'selector differs in case from the tree in a name or value and the reference answer differs between two '
            'flavours (or the HTML twin of an XML probe is non-empty); distinct by (recipe, selector)',
    'assumptions': ['ASCII letters only in case-varied positions (Python re.I folds a few non-ASCII letters; outside the statement)'],
}

# svg/circle/g/foreignObject/clipPath: html5lib puts them (and what they contain) into the SVG namespace inside an
# HTML document and stores the camel-cased names with their capitals
NAMES = ('div', 'Div', 'DIV', 'span', 'SPAN', 'p', 'b', 'B', 'svg', 'circle', 'g', 'foreignObject', 'clipPath')
ATTR_NAMES = ('title', 'TITLE', 'data-x', 'Data-X', 'type', 'Type', 'lang')
ATTR_VALUES = ('abc', 'ABC', 'Abc', 'text', 'TEXT', 'b c', 'B c', 'x-y', 'X-y')
FLAVOURS = ('html.parser', 'lxml', 'html5lib', 'html-api', 'xhtml', 'lxml-xml', 'xml-api')
HTML_ONLY = ('checked', 'default', 'disabled', 'enabled', 'indeterminate', 'optional', 'required', 'placeholder-shown',
             'read-only', 'read-write', 'in-range', 'out-of-range', 'link', 'any-link', 'defined')
EXPECT = {  # flavour -> (is_xml, is_html)
    'html.parser': (False, True), 'lxml': (False, True), 'html5lib': (False, True), 'html-api': (False, True),
    'xhtml': (True, True), 'lxml-xml': (True, False), 'xml-api': (True, False),
}
CFG = witness.Cfg(case_vary=True, nth=False, names=NAMES, p_logical=0.15, miss=0.5)


def as_flavour(recipe, flavour):
    r = copy.deepcopy(recipe)
    want_detach = bool(recipe.get('detach_xml')) and flavour in ('xhtml', 'lxml-xml', 'xml-api')
    r['detach'] = None
    if flavour == 'xhtml':
        r['kind'] = 'lxml-xml'

        def setns(n):
            if n['k'] == 'e':
                n['ns'] = trees.NS_XHTML
                for c in n['ch']:
                    setns(c)
        top = [n for n in r['top'] if n['k'] == 'e']
        body = {'k': 'e', 'name': 'html', 'ns': None, 'prefix': None, 'attrs': [], 'ch': [
            {'k': 'e', 'name': 'body', 'ns': None, 'prefix': None, 'attrs': [], 'ch': top}]}
        setns(body)
        r['top'] = [body]
        if want_detach:
            r['detach'] = [0]     # the root element taken out of its BeautifulSoup object: still an XML tree
        return r
    r['kind'] = flavour
    if flavour == 'lxml-xml':
        els = [n for n in r['top'] if n['k'] == 'e']
        if len(els) != 1 or len(r['top']) != 1:
            r['top'] = [{'k': 'e', 'name': 'root', 'ns': None, 'prefix': None, 'attrs': [], 'ch': els}]
    if flavour in ('lxml-xml', 'xml-api'):
        def joincls(n):
            if n['k'] == 'e':
                for a in n['attrs']:
                    if isinstance(a[3], list):
                        a[3] = ' '.join(a[3])
                for c in n['ch']:
                    joincls(c)
        for n in r['top']:
            joincls(n)
    if want_detach:
        r['detach'] = [0]
    return r


def build(recipe, flavour, extra):
    """Materialise a flavour, then set extra attributes through the API (parsers lower-case names, the API does not)."""
    doc = trees.materialise(as_flavour(recipe, flavour))
    if extra:
        by_n = {e.get('data-n'): e for e in doc.all_elements()}
        for idx, name, value in extra:
            e = by_n.get(str(idx))
            if e is not None and name not in e.attrs:
                e.attrs[name] = value
    return doc


def gen_case(ch, tier):
    recipe = trees.gen_recipe(ch, kinds=('html-api',), names=NAMES, attr_names=ATTR_NAMES, attr_values=ATTR_VALUES,
                              ids=('i1', 'I1', 'i2'), classes=('k', 'K', 'm'), max_elems=9, upper_names=False,
                              allow_detach=False, extra_text_values=False, max_top=1)
    # number the elements so answers can be compared across flavours
    n = [0]

    def number(node):
        if node['k'] == 'e':
            node['attrs'] = [a for a in node['attrs'] if a[2] != 'data-n'] + [[None, None, 'data-n', str(n[0])]]
            n[0] += 1
            for c in node['ch']:
                number(c)
    for node in recipe['top']:
        number(node)
    base = ch.pick(FLAVOURS)
    if ch.p(0.25):
        recipe['detach_xml'] = True   # XML flavours are queried on the extracted root element (no BeautifulSoup object on top)
    extra = []
    for _ in range(ch.i(0, 2)):
        extra.append([ch.i(0, max(0, n[0] - 1)), ch.pick(('data-Role', 'viewBox', 'TITLE', 'Lang', 'dataX')), ch.pick(ATTR_VALUES)])
    doc = build(recipe, base, extra)
    if not doc.all_elements():
        doc = build(recipe, 'html-api', extra)
    g = witness.Gen(ch, doc, CFG)
    sel = g.selector_list()
    return {'recipe': recipe, 'sel': sel, 'base': base, 'extra': extra}


def evaluate(case):
    """Return (fails, per-flavour reference answers)."""
    fails = []
    text = S.render_list(case['sel'])
    answers = {}
    for fl in FLAVOURS:
        doc = build(case['recipe'], fl, case.get('extra', []))
        ctx = R.Ctx(doc.target)
        if (ctx.is_xml, ctx.is_html) != EXPECT[fl]:
            raise common.HarnessError(f'flavour {fl} materialised as is_xml={ctx.is_xml} is_html={ctx.is_html}')
        exp = R.select(case['sel'], doc.target)
        try:
            got = sv.select(text, doc.target)
        except Exception as e:  # noqa: BLE001
            fails.append((f'raises-{type(e).__name__}', f'{text!r} on {fl}: {e!r:.200}'))
            continue
        answers[fl] = sorted(e.get('data-n') or '?' for e in exp)
        if [id(x) for x in got] != [id(x) for x in exp]:
            els = doc.elements()
            o = {id(e): i for i, e in enumerate(els)}
            kind = 'html' if EXPECT[fl] == (False, True) else 'xhtml' if fl == 'xhtml' else 'xml'
            fails.append((f'case-rule-{kind}', f'{text!r} on {fl} document {str(doc.target)[:300]!r}: soupsieve '
                          f'{[o.get(id(x)) for x in got]} reference {[o.get(id(x)) for x in exp]}'))
    return fails, answers, text


def probe_html_only(ch):
    """HTML-only pseudo-classes on an XML (not XHTML) form document select nothing."""
    recipe, _ = htmldoc.gen_html_doc(ch, kinds=('lxml-xml', 'xml-api'), depth=2, iframes=False)
    if ch.p(0.5):
        # an island of XHTML-namespace elements inside a document whose root is not XHTML (e.g. Atom content)
        island = trees.E('div', {}, htmldoc.block(ch, {'iframes': False}, 2, trees.NS_XHTML), ns=trees.NS_XHTML)
        recipe = {'kind': recipe['kind'], 'detach': None,
                  'top': [trees.E('feed', {}, [trees.E('entry', {}, [island]), trees.E('input', {'checked': '', 'type': 'checkbox'})])]}
    twin = dict(recipe, kind='html.parser' if recipe['kind'] == 'lxml-xml' else 'html-api')
    return {'probe': recipe, 'twin': twin}


def evaluate_probe(case):
    fails = []
    doc = trees.materialise(case['probe'])
    ctx = R.Ctx(doc.target)
    if (ctx.is_xml, ctx.is_html) != (True, False):
        raise common.HarnessError('probe document is not XML-not-XHTML')
    twin = trees.materialise(case['twin'])
    twin_hits = 0
    for name in HTML_ONLY + ('dir(ltr)', 'dir(rtl)'):
        for text in (':' + name, '*:' + name, f'input:{name}', f':is(:{name})', f'root :{name}, :{name}'):
            try:
                got = sv.select(text, doc.target)
                twin_hits += len(sv.select(text, twin.target)) > 0
            except Exception as e:  # noqa: BLE001
                fails.append((f'raises-{type(e).__name__}', f'{text!r}: {e!r:.200}'))
                continue
            if got:
                fails.append(('html-only-matches-in-xml', f'{text!r} selects {len(got)} element(s) of the XML document '
                              f'{str(doc.target)[:300]!r}'))
                continue
            # the same question asked with an element as the call target
            for el in doc.all_elements()[:40]:
                try:
                    hit = sv.select(text, el) or ([el] if sv.match(text, el) else []) or ([el] if sv.closest(text, el) else [])
                except Exception as e:  # noqa: BLE001
                    fails.append((f'raises-{type(e).__name__}', f'{text!r} on <{el.name}>: {e!r:.200}'))
                    break
                if hit:
                    fails.append(('html-only-matches-in-xml-scoped-call', f'{text!r} called on <{el.name}> (namespace '
                                  f'{el.namespace!r}) matches in the XML document {str(doc.target)[:300]!r}'))
                    break
    return fails, twin_hits


def letter_sweep():
    """Every ASCII letter, in tag names and attribute names, upper vs lower, under each HTML tree builder."""
    import string
    import bs4
    fails = []
    n = 0
    for parser in ('html.parser', 'lxml', 'html5lib'):
        for ch_ in string.ascii_lowercase:
            name, attr = f't{ch_}q', f'data-{ch_}x'
            soup = bs4.BeautifulSoup(f'<div><{name} {attr}="v" id="e"></{name}></div>', parser)
            el = soup.find(id='e')
            el.attrs['W' + ch_.upper()] = 'v'          # set through the API: the stored name keeps its case
            for text in (name.upper(), f'[{attr.upper()}]', f'{name.capitalize()}[{attr.upper()}="v"]', f'[w{ch_}]',
                         f'[W{ch_.upper()}=v]'):
                n += 1
                try:
                    got = sv.select(text, soup)
                except Exception as e:  # noqa: BLE001
                    fails.append(('raises-' + type(e).__name__, f'{text!r}: {e!r:.100}'))
                    continue
                if [x.get('id') for x in got] != ['e']:
                    fails.append(('case-rule-html-letter', f'{text!r} does not match <{name} {attr}="v" W{ch_.upper()}="v"> under {parser}'))
    return fails, n


def replay(case):
    if 'sweep' in case:
        fails, _ = letter_sweep()
        return fails[0] if fails else None
    if 'probe' in case:
        fails, _ = evaluate_probe(case)
    else:
        fails, _a, _t = evaluate(case)
    return fails[0] if fails else None


def case_differs(sel, recipe):
    """Does the selector contain an ASCII letter case that differs from the tree's spelling somewhere?"""
    names = set()

    def walk(n):
        if n['k'] == 'e':
            names.add(n['name'])
            for a in n['attrs']:
                names.add(a[2])
                names.add(a[3] if isinstance(a[3], str) else ' '.join(a[3]))
            for c in n['ch']:
                walk(c)
    for n in recipe['top']:
        walk(n)
    low = {x.lower() for x in names}
    for c in S.walk_compounds(sel):
        words = []
        if c.get('tag') and c['tag']['name'] != '*':
            words.append(c['tag']['name'])
        for a in c.get('attrs', []):
            words.append(a['name'])
            if a.get('op'):
                words.append(a['val'])
        for w in words:
            if w not in names and w.lower() in low:
                return True
    return False


def shard(ctx):
    col = common.Collector()
    tier = ctx['tier']

    def body(ch):
        if ch.p(0.12):
            case = probe_html_only(ch)
            fails, hits = evaluate_probe(case)
            col.count(85)
            col.classify('html-only-probe')
            if hits:
                col.nontrivial_case(case['probe'], {'probe-document': trees.markup(case['probe'])[:300],
                                                    'html-twin-nonempty-selectors': hits})
            for b, d in fails[:2]:
                col.fail(b, case, d)
            return
        case = gen_case(ch, tier)
        fails, answers, text = evaluate(case)
        col.count(len(FLAVOURS))
        differs = len({tuple(v) for v in answers.values()}) > 1
        cd = case_differs(case['sel'], case['recipe'])
        if cd:
            col.classify('case-differs')
        if differs:
            col.classify('answer-differs-between-flavours')
        if any(a.get('flag') for c in S.walk_compounds(case['sel']) for a in c['attrs']):
            col.classify('has-flag')
        if cd and differs:
            col.nontrivial_case([case['recipe'], text], {'selector': text, 'answers': answers,
                                                         'markup': trees.markup(case['recipe'])[:300]})
        for b, d in fails[:3]:
            col.fail(b, case, d)

    if ctx['shard'] == 0:
        fails, n = letter_sweep()
        col.count(n)
        col.classify('letter-sweep')
        for b, d in fails[:2]:
            col.fail(b, {'sweep': True}, d)
    ex = common.hyp_run(choose.choices(3072), body, 40000 if tier == 'quick' else 4000000, ctx['hseed'],
                        deadline_ts=ctx['t_end'])
    col.extra['budget_exhausted'] = int(ex)
    return col
