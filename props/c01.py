"""C01 - select() returns exactly the elements CSS semantics designate (reference-model differential)."""
from __future__ import annotations

import itertools
import time

import soupsieve as sv

from engine import choose, common, refmatch as R, selast as S, trees, witness

ID = 'C01'
BUDGET = {'quick': 55, 'thorough': 900}
META = {
    'rule': 'cases = (tree recipe materialised via bs4 API or a parser) x (witness-directed selector AST of the C01 '
            'grammar rendered to text) plus a small-scope exhaustive box; oracle = naive reference matcher on the '
            'resulting bs4 tree, compared by element identity and order; a case is non-trivial when the reference '
            'result is a non-empty proper subset of the element descendants, or the selector has a combinator / '
            ':has / :not; distinct = distinct (tree, selector) hashes',
    'assumptions': [
        'bs4 4.15 / lxml / html5lib as installed are the parsers',
        ':root modelled as the suite pins it (single top-level element, no other top-level element/CDATA/non-blank text)',
        'i-flag and type comparisons drawn from ASCII + uncased characters only',
        'iframe elements are not generated here (C13/C17/C19 cover them)',
    ],
}

CFG = witness.Cfg(nth=False, scope=False)


def gen_case(ch, tier='quick'):
    if ch.p(0.15):
        # element *type* is (namespace URI, local name): same names under different URIs, one URI under two prefixes
        recipe = trees.gen_recipe(ch, kinds=('xml-api', 'lxml-xml'), names=('a', 'b'), max_elems=10,
                                  ns_choices=(None, 'urn:a', 'urn:b'), prefix_choices=(None, 'x', 'y'))
    else:
        recipe = trees.gen_recipe(ch, max_elems=12 if tier == 'quick' else 28, names=('a', 'b', 'p', 'div', 'span', 'zz'),
                                  attr_names=('title', 'data-x', 'href', 'type', 'size'))
    doc = trees.materialise(recipe)
    if not doc.all_elements():
        recipe = {'kind': 'html-api', 'top': [trees.E('a')], 'detach': None}
        doc = trees.materialise(recipe)
    g = witness.Gen(ch, doc, CFG)
    sel = g.selector_list()
    case = {'tree': recipe, 'sel': sel}
    return case, doc


def evaluate(case, doc=None):
    """Return (bucket, detail) on disagreement, else None; plus info dict."""
    if doc is None:
        doc = trees.materialise(case['tree'])
    text = S.render_list(case['sel'])
    exp = R.select(case['sel'], doc.target)
    info = {'text': text, 'n_exp': len(exp), 'n_all': len(doc.elements())}
    try:
        got = sv.select(text, doc.target)
    except Exception as e:  # noqa: BLE001
        return ('exception-' + type(e).__name__, f'{text!r}: {type(e).__name__}: {e}'), info
    gi, ei = [id(x) for x in got], [id(x) for x in exp]
    if gi != ei:
        extra = [x for x in gi if x not in ei]
        missing = [x for x in ei if x not in gi]
        kind = 'order' if not extra and not missing else 'extra' if not missing else 'missing' if not extra else 'both'
        order = {id(e): n for n, e in enumerate(doc.elements())}
        return (f'mismatch-{kind}',
                f'selector {text!r} on {trees.markup(case["tree"]) if case["tree"]["kind"] not in trees.API_KINDS else str(doc.target)!r} '
                f'(kind {case["tree"]["kind"]}): soupsieve positions {[order.get(i) for i in gi]}, '
                f'reference {[order.get(i) for i in ei]}'), info
    return None, info


def replay(case):
    if 'box' in case:
        return replay_box(case)
    out, _ = evaluate(case)
    return out


def features(sel):
    f = set()
    for cxp in sel:
        for i, part in enumerate(cxp):
            if i:
                f.add('comb' + part['comb'])
    for p in S.walk_pseudos(sel):
        f.add(p['p'])
        if p['p'] == 'has':
            for c in p['args']:
                f.add('has' + (c[0]['comb'] or ' '))
    for c in S.walk_compounds(sel):
        for a in c['attrs']:
            f.add('op' + str(a['op']))
            if a['op'] in ('^=', '$=', '*=') and a['val'] == '':
                f.add('empty-substring-op')
            if a['flag']:
                f.add('flag-' + a['flag'])
    return f


# ------------------------------------------------------------------ small-scope exhaustive box (E5)

def forests(n):
    """All ordered forests with n nodes as nested lists."""
    if n == 0:
        return [[]]
    out = []
    for k in range(1, n + 1):          # size of first tree
        for sub in forests(k - 1):     # children of its root
            for rest in forests(n - k):
                out.append([sub] + rest)
    return out


BOX_COMPOUNDS = [
    S.compound('a'), S.compound('b'), S.compound('*'), S.compound(None, classes=['k']),
    S.compound(None, ps=[{'p': 'first-child'}]), S.compound(None, ps=[{'p': 'last-child'}]),
    S.compound(None, ps=[{'p': 'only-of-type'}]), S.compound(None, ps=[{'p': 'empty'}]),
    S.compound(None, ps=[{'p': 'root'}]), S.compound(None, ps=[{'p': 'not', 'args': [S.cx(S.compound('a'))]}]),
    S.compound(None, ps=[{'p': 'has', 'args': [[{'comb': '>', 'c': S.compound('b')}]]}]),
    S.compound(None, ps=[{'p': 'has', 'args': [[{'comb': '+', 'c': S.compound('a')}]]}]),
]
GAPS = [None, {'k': 't', 's': '\n'}, {'k': 'c', 's': 'c'}]


def box_trees(max_nodes):
    for n in range(1, max_nodes + 1):
        for f in forests(n):
            for names in itertools.product('ab', repeat=n):
                for gap in range(len(GAPS)):
                    yield f, names, gap


def build_box_tree(f, names, gap):
    it = iter(names)
    idx = [0]

    def mk(children_spec):
        name = next(it)
        i = idx[0]
        idx[0] += 1
        attrs = [[None, None, 'class', ['k']]] if i % 2 == 1 else []
        ch = []
        for sub in children_spec:
            if GAPS[gap]:
                ch.append(dict(GAPS[gap]))
            ch.append(mk(sub))
        if ch and GAPS[gap]:
            ch.append(dict(GAPS[gap]))
        return {'k': 'e', 'name': name, 'ns': None, 'prefix': None, 'attrs': attrs, 'ch': ch}

    top = []
    for sub in f:
        if GAPS[gap]:
            top.append(dict(GAPS[gap]))
        top.append(mk(sub))
    return {'kind': 'html-api', 'top': top, 'detach': None}


def box_selectors(max_comb):
    for c in BOX_COMPOUNDS:
        yield [{'comb': None, 'c': c}]
    if max_comb >= 1:
        for c1, comb, c2 in itertools.product(BOX_COMPOUNDS, ' >+~', BOX_COMPOUNDS):
            yield [{'comb': None, 'c': c1}, {'comb': comb, 'c': c2}]
    if max_comb >= 2:
        for c1, k1, c2, k2, c3 in itertools.product(BOX_COMPOUNDS, ' >+~', BOX_COMPOUNDS, ' >+~', BOX_COMPOUNDS):
            yield [{'comb': None, 'c': c1}, {'comb': k1, 'c': c2}, {'comb': k2, 'c': c3}]


def replay_box(case):
    recipe = build_box_tree(case['box']['forest'], case['box']['names'], case['box']['gap'])
    out, _ = evaluate({'tree': recipe, 'sel': [case['sel']]})
    return out


def run_box(col, ctx):
    tier = ctx['tier']
    max_nodes = 4
    max_comb = 1 if tier == 'quick' else 2
    sels = [(s, S.render_complex(s)) for s in box_selectors(max_comb)]
    compiled = [(s, t, sv.compile(t)) for s, t in sels]
    k, n = ctx['shard'], ctx['nshards']
    for ti, (f, names, gap) in enumerate(box_trees(max_nodes)):
        if ti % n != k:
            continue
        if time.time() > ctx['t_end']:
            col.extra['budget_exhausted'] = 1
            col.extra['box_complete'] = 0
            return
        recipe = build_box_tree(f, names, gap)
        doc = trees.materialise(recipe)
        els = doc.elements()
        rctx = R.Ctx(doc.target)
        for s, text, comp in compiled:
            exp = [d for d in els if R.match_list(rctx, d, [s])]
            got = comp.select(doc.target)
            col.count()
            if [id(x) for x in got] != [id(x) for x in exp]:
                order = {id(e): j for j, e in enumerate(els)}
                col.fail('box-mismatch', {'box': {'forest': f, 'names': list(names), 'gap': gap}, 'sel': s},
                         f'{text!r} on {str(doc.soup)!r}: soupsieve {[order[id(x)] for x in got]} reference '
                         f'{[order[id(x)] for x in exp]}')
            if 0 < len(exp) < len(els):
                col.nontrivial_case(['box', ti, text],
                                    {'tree': str(doc.soup), 'selector': text, 'selected': len(exp), 'of': len(els)}
                                    if ti % 97 == 0 else None)
        col.classify('box-tree')
    col.extra['box_complete'] = 1


def shard(ctx):
    col = common.Collector()
    tier = ctx['tier']
    # half of the wall budget for the random part, the rest for the box
    t_random_end = time.time() + ctx['budget_s'] * (0.55 if tier == 'quick' else 0.5)

    def body(ch):
        case, doc = gen_case(ch, tier)
        out, info = evaluate(case, doc)
        col.count()
        feats = features(case['sel'])
        kind = case['tree']['kind']
        col.classify('kind:' + kind)
        for f in feats:
            col.classify('feat:' + f)
        if case['tree'].get('detach'):
            col.classify('detached-target')
        if len(case['tree']['top']) > 1:
            col.classify('multi-top-level-nodes')
        nontrivial = (0 < info['n_exp'] < info['n_all']) or any(
            f.startswith('comb') or f in ('has', 'not') for f in feats)
        if info['n_exp']:
            col.classify('nonempty-result')
        if 0 < info['n_exp'] < info['n_all']:
            col.classify('proper-subset-result')
        if nontrivial:
            col.nontrivial_case([case['tree'], info['text']],
                                {'kind': kind, 'selector': info['text'], 'selected': info['n_exp'],
                                 'elements': info['n_all'], 'markup': trees.markup(case['tree'])[:300]})
        if out:
            col.fail(out[0], case, out[1])

    exhausted = common.hyp_run(choose.choices(2048), body, 50000 if tier == "quick" else 2000000, ctx['hseed'],
                               deadline_ts=t_random_end)
    col.extra['random_budget_exhausted'] = int(exhausted)
    run_box(col, ctx)
    return col


SELFTEST = [
    # (markup, parser, selector AST, expected ids) - expectations from Selectors 3/4 text
    ('<div id="1"><p id="2"></p><p id="3" class="k m"></p><span id="4"><p id="5"></p></span></div>', 'html.parser',
     [S.cx(S.compound('div'), '>', S.compound('p'))], ['2', '3']),
    ('<div id="1"><p id="2"></p><p id="3" class="k m"></p><span id="4"><p id="5"></p></span></div>', 'html.parser',
     [S.cx(S.compound('p'), '+', S.compound('p'))], ['3']),
    ('<div id="1"><p id="2"></p><p id="3" class="k m"></p><span id="4"><p id="5"></p></span></div>', 'html.parser',
     [S.cx(S.compound('p'), '~', S.compound('span'), ' ', S.compound('p'))], ['5']),
    ('<div id="1"><p id="2"></p><p id="3" class="k m"></p><span id="4"><p id="5"></p></span></div>', 'html.parser',
     [S.cx(S.compound(None, ps=[{'p': 'has', 'args': [[{'comb': '>', 'c': S.compound('p', classes=['m'])}]]}]))],
     ['1']),
    ('<div id="1"><p id="2"></p><p id="3" class="k m"></p><span id="4"><p id="5"></p></span></div>', 'html.parser',
     [S.cx(S.compound('p', ps=[{'p': 'not', 'args': [S.cx(S.compound(None, classes=['k']))]}]))], ['2', '5']),
    ('<html id="0"><body id="1"><p id="2" title="a-b c"></p></body></html>', 'html.parser',
     [S.cx(S.compound('*'), '>', S.compound('html'))], []),
    ('<html id="0"><body id="1"><p id="2" title="a-b c"></p></body></html>', 'html.parser',
     [S.cx(S.compound(None, attrs=[{'ns': None, 'name': 'title', 'op': '^=', 'val': '', 'flag': None}]))], []),
    ('<html id="0"><body id="1"><p id="2" title="a-b c"></p></body></html>', 'html.parser',
     [S.cx(S.compound(None, attrs=[{'ns': None, 'name': 'title', 'op': '|=', 'val': 'a', 'flag': None}]))], ['2']),
    ('<html id="0"><body id="1"><p id="2" title="a-b c"></p></body></html>', 'html.parser',
     [S.cx(S.compound(None, attrs=[{'ns': None, 'name': 'TITLE', 'op': '~=', 'val': 'C', 'flag': 'i'}]))], ['2']),
    ('<html id="0"><body id="1"><p id="2" title="a-b c"></p></body></html>', 'html.parser',
     [S.cx(S.compound(None, ps=[{'p': 'root'}]))], ['0']),
    ('<html id="0"><body id="1"><p id="2" title="a-b c"></p></body></html>', 'html.parser',
     [S.cx(S.compound(None, ps=[{'p': 'empty'}]))], ['2']),
    ('<html id="0"><body id="1"><p id="2" title="a-b c"></p></body></html>', 'html.parser',
     [S.cx(S.compound(None, ps=[{'p': 'only-child'}]))], ['0', '1', '2']),
]


def selftest():
    import bs4
    for mk, parser, sel, exp in SELFTEST:
        soup = bs4.BeautifulSoup(mk, parser)
        got = [e.get('id') for e in R.select(sel, soup)]
        if got != exp:
            raise common.HarnessError(f'reference self-test: {S.render_list(sel)!r} on {mk!r}: {got} != {exp}')


def evidence_extra(merged):
    complete = merged['extra'].get('box_complete', 0) == len(merged.get('shard_wall', []))
    return {'exhaustive': bool(complete),
            'box': 'all ordered forests with <=4 elements over names {a,b} x 3 gap fillings x all complex selectors '
                   'with <=1 (quick) / <=2 (thorough) combinators over a 12-compound alphabet'}
