"""C15 helper: compile the keys given on stdin (JSON list of [pattern, namespaces, custom, flags]) in *this* interpreter
process and print their pickles (base64, JSON list).  Run with its own PYTHONHASHSEED by props/c15.py."""
import base64
import contextlib
import io
import json
import os
import pickle
import sys
import warnings

sys.path.insert(0, os.path.dirname(os.path.dirname(os.path.abspath(__file__))))
from engine import common  # noqa: E402

sv = common.setup_path()


def main():
    keys = json.load(sys.stdin)
    out = []
    for key in keys:
        pat, ns, custom, flags = key[:4]
        kw = {} if custom is None else {'custom': custom}
        try:
            with contextlib.redirect_stdout(io.StringIO()), warnings.catch_warnings():
                warnings.simplefilter('ignore')
                c = sv.compile(pat, ns, flags, **kw)
        except (KeyError, sv.SelectorSyntaxError, NotImplementedError):
            out.append(None)     # a key compile() rejects with a documented error: nothing to pickle
            continue
        out.append(base64.b64encode(pickle.dumps(c)).decode('ascii'))
    json.dump(out, sys.stdout)


main()
