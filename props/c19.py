"""C19 - text pseudo-classes see exactly the character data that counts as content."""
from __future__ import annotations

import warnings

import bs4
import soupsieve as sv

from engine import choose, common, refmatch as R, respell, selast as S, trees

ID = 'C19'
BUDGET = {'quick': 50, 'thorough': 900}
META = {
    'rule': 'trees with arbitrary interleavings of text, comment, CDATA, PI, doctype, declaration and element nodes at '
            'every depth (API-built and parsed; HTML with iframes that have content, XML where iframe is ordinary); '
            'needles: substrings of the true concatenated text (also spanning node and element boundaries), substrings '
            'that occur only in comment/CDATA/PI content or inside an iframe, the empty string, strings with quotes, '
            'backslashes, newlines, non-ASCII; 1-3 needles per pseudo-class, spelled quoted either way, with escapes, '
            'or as bare identifiers; :-soup-contains, :-soup-contains-own, :contains (FutureWarning required), :empty. '
            'Oracle: reference text model on the bs4 tree. Non-trivial: the element has >= 2 kinds of string children, '
            'or a needle spans two nodes, or occurs only in a non-text node / inside an iframe; distinct by (recipe, '
            'selector)',
    'assumptions': ['an element that is itself an HTML iframe is not compared (the statement speaks of nested iframes)',
                    'script/style/rt text (bs4 string subclasses Script, Stylesheet, RubyTextString) is ordinary text: only comments, CDATA, PIs, declarations and doctypes are excluded, as the statement lists'],
}

TEXTS = ['x', 'x y', 'abc', 'a"b', "it's", 'a\\b', 'é', '\n', ' ', ')', ',', 'ab', 'bc', 'a', '', 'Abc', '  x\ty ',
         'ünï', '\\', '""', 'a\nb', '<', '&amp;', 'א', '\t', ' \t\r\n\f',
         # white space to Python's \s but not to CSS (content for :empty, ordinary characters for needles)
         '\xa0', '\u2003', '\x0b', ' \x1f\n', '\x85', '\u3000\n', '\u2028']
# svg: html5lib puts what it contains (an `iframe` too) into the SVG namespace - such an iframe is an ordinary element
NAMES = ('a', 'b', 'p', 'div', 'iframe', 'span', 'script', 'style', 'rt', 'svg')


def text_of(ctx, el):
    out = []

    def walk(node):
        for c in node.contents:
            if isinstance(c, bs4.Tag):
                if R.is_iframe(ctx, c):
                    continue
                walk(c)
            elif R.is_text(c):
                out.append(str(c))
    if R.is_iframe(ctx, el):
        return None
    walk(el)
    return ''.join(out)


def own_texts(ctx, el):
    if R.is_iframe(ctx, el):
        return None
    return [str(c) for c in el.contents if R.is_text(c)]


def ref_contains(ctx, el, p):
    if p.get('own'):
        own = own_texts(ctx, el)
        return None if own is None else any(v in t for v in p['vals'] for t in own)
    t = text_of(ctx, el)
    return None if t is None else any(v in t for v in p['vals'])


def all_strings(doc):
    """(kind, text, inside_iframe) for every string node."""
    out = []
    for n in doc.top().descendants:
        if isinstance(n, bs4.NavigableString):
            kind = 'text' if R.is_text(n) else type(n).__name__
            out.append((kind, str(n)))
    return out


def add_look_alike(ch, recipe):
    """Give one element a next sibling that bs4 considers *equal* to it (same name, attributes, child strings) although
    the kinds of its string children differ: text where the original has a comment / CDATA / PI and vice versa."""
    import copy as _copy
    holders = []

    def walk(children):
        for i, n in enumerate(children):
            if n['k'] == 'e':
                if any(c['k'] != 'e' for c in n['ch']):
                    holders.append((children, i))
                walk(n['ch'])
    walk(recipe['top'])
    if not holders:
        return
    children, i = holders[ch.i(0, len(holders) - 1)]
    twin = _copy.deepcopy(children[i])

    def swap(n):
        for c in n['ch']:
            if c['k'] == 'e':
                swap(c)
            elif c['k'] == 't':
                if c['s'].strip() and ch.p(0.7):
                    c['k'] = ch.pick(('c', 'c', 'cd', 'pi'))
            elif c['k'] in ('c', 'cd', 'pi') and ch.p(0.7):
                c['k'] = 't'
    swap(twin)
    if ch.p(0.5):
        children.insert(i + 1, twin)
    else:
        children.insert(i, twin)


def gen_case(ch, tier):
    recipe = trees.gen_recipe(ch, names=NAMES, string_kinds=('t', 't', 't', 'c', 'cd', 'pi', 'dt', 'decl'), texts=TEXTS,
                              max_elems=8 if tier == 'quick' else 16, attr_names=('title',), attr_values=('abc',),
                              extra_text_values=False, allow_detach=True, upper_names=False)
    if ch.p(0.3):
        add_look_alike(ch, recipe)
    doc = trees.materialise(recipe)
    els = doc.all_elements()
    if not els:
        recipe = {'kind': 'html-api', 'top': [trees.E('a', {}, [trees.T('x')])], 'detach': None}
        doc = trees.materialise(recipe)
        els = doc.all_elements()
    ctx = R.Ctx(doc.target)
    strings = all_strings(doc)
    needles = []
    for _ in range(ch.i(1, 3)):
        r = ch.i(0, 9)
        el = ch.pick(els)
        full = text_of(ctx, el) or ''
        if r <= 3 and full:
            a = ch.i(0, len(full) - 1)
            b = ch.i(a, min(len(full), a + 6))
            needles.append(full[a:b])
        elif r <= 5 and strings:
            kind, s = ch.pick(strings)
            needles.append(s[:ch.i(0, len(s))] if ch.p(0.5) else s)
        elif r == 6:
            needles.append('')
        else:
            needles.append(ch.pick(TEXTS) + (ch.pick(TEXTS) if ch.p(0.3) else ''))
    own = ch.p(0.4)
    alias = 'contains' if (not own and ch.p(0.1)) else None
    pseudo = {'p': 'contains', 'own': own, 'vals': needles}
    if alias:
        pseudo['alias'] = alias
    tag = ch.pick(els).name if ch.p(0.3) else None
    if tag and (':' in tag or not tag):
        tag = None
    neg = ch.p(0.15)
    kind = 'empty' if ch.p(0.12) else 'contains'
    chain = []
    if kind == 'contains' and ch.p(0.3):
        for _ in range(ch.i(1, 2)):
            el2 = ch.pick(els)
            full2 = text_of(ctx, el2) or ''
            v = full2[:ch.i(0, min(4, len(full2)))] if ch.p(0.6) else ch.pick(TEXTS)
            chain.append({'p': 'contains', 'own': ch.p(0.5), 'vals': [v] + ([ch.pick(TEXTS)] if ch.p(0.3) else [])})
    return {'tree': recipe, 'pseudo': pseudo, 'tag': tag, 'neg': neg, 'kind': kind, 'chain': chain,
            'spell': [ch.i(0, 255) for _ in range(48)]}, doc


def build_selector(case):
    p = case['pseudo'] if case['kind'] == 'contains' else {'p': 'empty'}
    r = respell.Respeller(choose.Chooser(bytes(case['spell'])), 'all', 0.5, pseudo_name_escapes=False)
    inner = r.pseudo(p)
    for extra in case.get('chain', []):
        inner += r.pseudo(extra)
    if case['neg']:
        inner = ':not(' + inner + ')'
    return (S.ident(case['tag']) if case['tag'] else '') + inner, p


def evaluate(case, doc=None):
    if doc is None:
        doc = trees.materialise(case['tree'])
    ctx = R.Ctx(doc.target)
    text, p = build_selector(case)
    els = doc.elements()
    fails = []
    with warnings.catch_warnings(record=True) as w:
        warnings.simplefilter('always')
        sv.purge()
        try:
            got = sv.select(text, doc.target)
        except Exception as e:  # noqa: BLE001
            return [('raises-' + type(e).__name__, f'{text!r}: {e!r:.300}')], None
    future = [x for x in w if issubclass(x.category, FutureWarning)]
    if p.get('alias') == 'contains' and not future:
        fails.append(('contains-alias-without-futurewarning', text))
    if p.get('alias') != 'contains' and future:
        fails.append(('unexpected-futurewarning', text))
    gotset = {id(x) for x in got}
    info = {'text': text, 'multi_kind': False, 'only_elsewhere': False, 'n': 0}
    skipped = 0
    for e in els:
        if case['tag'] and ctx.el_name(e) != ctx.fold_name(case['tag']):
            exp = False
        elif case['kind'] == 'empty':
            exp = R.match_empty(ctx, e) != case['neg']
        else:
            r = ref_contains(ctx, e, p)
            if r is None:
                skipped += 1
                continue
            for extra in case.get('chain', []):
                r = r and ref_contains(ctx, e, extra)
            exp = bool(r) != case['neg']
        info['n'] += exp
        if (id(e) in gotset) != exp:
            kinds = sorted({type(c).__name__ for c in e.contents if not isinstance(c, bs4.Tag)})
            which = 'own' if p.get('own') else 'empty' if case['kind'] == 'empty' else 'contains'
            fails.append((f'text-{which}-{"missed" if exp else "overmatched"}',
                          f'{text!r} (needles {p.get("vals")!r}) on <{e.name}> of {case["tree"]["kind"]} document '
                          f'{str(doc.target)[:400]!r}: soupsieve {id(e) in gotset}, reference {exp}; child string kinds {kinds}'))
            break
    # non-trivial classification
    for e in els:
        kinds = {type(c).__name__ for c in e.contents if isinstance(c, bs4.NavigableString)}
        if len(kinds) >= 2:
            info['multi_kind'] = True
    if case['kind'] == 'contains':
        alltext = ''.join(s for k, s in all_strings(doc) if k == 'text')
        for v in p['vals']:
            if v and v not in alltext and any(v in s for k, s in all_strings(doc)):
                info['only_elsewhere'] = True
            if v and any(v in (text_of(ctx, e) or '') and not any(v in t for t in (own_texts(ctx, e) or [])) and
                         not any(v in (text_of(ctx, c) or '') for c in R.elem_children(e)) for e in els):
                info['spans'] = True
    info['skipped_iframes'] = skipped
    return fails, info


def replay(case):
    fails, _ = evaluate(case)
    return fails[0] if fails else None


def shard(ctx):
    col = common.Collector()
    tier = ctx['tier']

    def body(ch):
        case, doc = gen_case(ch, tier)
        fails, info = evaluate(case, doc)
        col.count()
        col.classify('kind:' + case['tree']['kind'], 'pseudo:' + ('empty' if case['kind'] == 'empty' else
                                                                  'own' if case['pseudo']['own'] else 'contains'))
        if case.get('chain'):
            col.classify('chained-text-pseudo-classes')
        if info:
            if info['n']:
                col.classify('nonempty')
            for k in ('multi_kind', 'only_elsewhere', 'spans'):
                if info.get(k):
                    col.classify(k)
            if info['multi_kind'] or info['only_elsewhere'] or info.get('spans'):
                col.nontrivial_case([case['tree'], info['text']],
                                    {'selector': info['text'], 'needles': case['pseudo']['vals'],
                                     'kind': case['tree']['kind'], 'markup': trees.markup(case['tree'])[:300]})
        for b, d in fails[:2]:
            col.fail(b, case, d)

    ex = common.hyp_run(choose.choices(3072), body, 60000 if tier == 'quick' else 4000000, ctx['hseed'],
                        deadline_ts=ctx['t_end'])
    col.extra['budget_exhausted'] = int(ex)
    return col
