#!/usr/bin/env python3
"""Take a change written by an independent agent in a scratch worktree, confirm it (suite passes, demo fails with /
passes without), store it under /verif/seeded/<name>/ and run the named checks against it.

usage: tools/seed_intake.py <name> <agent-worktree> <PROP> [more PROPs...]
"""
import json
import os
import shutil
import subprocess
import sys
import tempfile

V = os.path.dirname(os.path.dirname(os.path.abspath(__file__)))
PY = '/venv/bin/python'


def sh(cmd, **kw):
    return subprocess.run(cmd, shell=True, capture_output=True, text=True, **kw)


def main():
    name, wt, props = sys.argv[1], sys.argv[2], sys.argv[3:]
    out = os.path.join(V, 'seeded', name)
    os.makedirs(out, exist_ok=True)
    diff = sh(f'git -C {wt} diff -- soupsieve').stdout
    if not diff.strip():
        print('no change in', wt)
        return 2
    open(os.path.join(out, 'patch.diff'), 'w').write(diff)
    for f in ('demo.py',):
        shutil.copy(os.path.join(wt, f), os.path.join(out, f))
    meta = {}
    try:
        meta = json.load(open(os.path.join(wt, 'meta.json')))
    except Exception as e:  # noqa: BLE001
        meta = {'agent_meta_unreadable': repr(e)}
    scratch = tempfile.mkdtemp(prefix='seedchk.')
    try:
        sh(f'git -C /repo worktree add -q --detach {scratch} HEAD')
        demo = os.path.join(out, 'demo.py')
        # demo.py may mention the agent's worktree path: run it with PYTHONPATH only
        text = open(demo).read().replace(wt, scratch)
        open(os.path.join(scratch, 'demo_copy.py'), 'w').write(text)
        clean = sh(f'cd /tmp && PYTHONPATH={scratch} {PY} {scratch}/demo_copy.py')
        ap = sh(f'cd {scratch} && git apply {out}/patch.diff')
        if ap.returncode:
            print('patch does not apply to /repo HEAD:', ap.stderr[:300])
            return 2
        broken = sh(f'cd /tmp && PYTHONPATH={scratch} {PY} {scratch}/demo_copy.py')
        suite = sh(f'cd {scratch} && {PY} -m pytest -q -p no:cacheprovider -n 8 2>&1 | tail -1').stdout.strip()
        verdicts = {}
        for p in props:
            r = sh(f'VERIF_REPO={scratch} VERIF_NO_EVIDENCE=1 VERIF_BUDGET_S={os.environ.get("SEED_BUDGET", "45")} {PY} {V}/check.py {p} --tier quick')
            lines = [ln for ln in r.stdout.splitlines() if 'VIOLATION' in ln or 'bucket=' in ln or 'HARNESS' in ln]
            verdicts[p] = {'exit': r.returncode, 'lines': [ln[:400] for ln in lines[:4]]}
    finally:
        sh(f'git -C /repo worktree remove --force {scratch}')
        shutil.rmtree(scratch, ignore_errors=True)
    confirmed = clean.returncode == 0 and broken.returncode != 0 and suite.startswith('381 passed')
    base = sh('git -C /repo log -1 --format=%h').stdout.strip()
    rec = {
        'name': name,
        'base_commit': base,
        'breaks_property': props[0],
        'agent_meta': meta,
        'confirmed': {
            'demo_exit_on_unchanged_tree': clean.returncode,
            'demo_exit_with_change': broken.returncode,
            'suite_with_change': suite,
            'ok': confirmed,
        },
        'checks_run': verdicts,
        'ran': [f'git apply patch.diff in a scratch worktree of /repo HEAD', 'PYTHONPATH=<worktree> /venv/bin/python demo.py (both states)',
                '/venv/bin/python -m pytest -q -p no:cacheprovider -n 8 (with the change)'] +
               [f'VERIF_REPO=<worktree> check.py {p} --tier quick' for p in props],
    }
    json.dump(rec, open(os.path.join(out, 'meta.json'), 'w'), indent=1)
    print(json.dumps({'confirmed': rec['confirmed'], 'checks': {p: (v['exit'], v['lines'][:2]) for p, v in verdicts.items()}}, indent=1)[:3000])
    return 0


if __name__ == '__main__':
    sys.exit(main())
