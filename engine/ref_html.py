"""Reference definitions of the HTML state pseudo-classes (C17), written from the HTML/Selectors texts as the
property statement summarises them.  Everything is evaluated inside the element's own document: an HTML iframe
element is a boundary no rule crosses.
"""
from __future__ import annotations

import soupsieve  # noqa: F401
import bs4

from . import ref_range as RR
from . import refmatch as R

TEXTISH = ('', 'text', 'search', 'url', 'tel', 'email', 'password', 'number')
RW_TYPES = TEXTISH + ('date', 'datetime-local', 'month', 'time', 'week')


def attr(ctx, el, name):
    for k, v in el.attrs.items():
        if (str(k) == name) if ctx.is_xml else (R.ascii_lower(str(k)) == name):
            if ctx.ns_aware and getattr(k, 'namespace', None) is not None:
                continue
            return R.norm_value(v)
    return None


def name_of(ctx, el):
    return ctx.el_name(el) if ctx.is_html_el(el) else None


def itype(ctx, el):
    t = attr(ctx, el, 'type')
    return None if t is None else R.ascii_lower(t)


def doc_parent(ctx, el):
    p = el.parent
    if p is None or not R.is_elem(p) or R.is_iframe(ctx, p):
        return None
    return p


def doc_ancestors(ctx, el):
    out = []
    p = doc_parent(ctx, el)
    while p is not None:
        out.append(p)
        p = doc_parent(ctx, p)
    return out


def doc_descendants(ctx, node):
    """Element descendants in tree order, not entering iframes (the iframe element itself is included)."""
    out = []
    for c in node.contents:
        if isinstance(c, bs4.Tag):
            out.append(c)
            if not R.is_iframe(ctx, c):
                out.extend(doc_descendants(ctx, c))
    return out


def doc_root(ctx, el):
    """The node that stands for the element's own document: the BeautifulSoup object when the element hangs under
    it (also when the markup produced several top-level elements), else the top element below an iframe boundary
    or of a detached fragment."""
    cur = el
    while True:
        p = cur.parent
        if p is None:
            return cur
        if isinstance(p, bs4.BeautifulSoup):
            return p
        if R.is_iframe(ctx, p):
            return cur
        cur = p


def is_form_control(ctx, el):
    n = name_of(ctx, el)
    if n == 'input':
        return itype(ctx, el) != 'hidden'
    return n in ('button', 'select', 'textarea', 'fieldset', 'optgroup', 'option')


def fieldset_disableable(ctx, el):
    n = name_of(ctx, el)
    if n == 'input':
        return itype(ctx, el) != 'hidden'
    return n in ('button', 'select', 'textarea', 'fieldset')


def disabled(ctx, el):
    if not is_form_control(ctx, el):
        return False
    if attr(ctx, el, 'disabled') is not None:
        return True
    if name_of(ctx, el) == 'option':
        p = doc_parent(ctx, el)
        if p is not None and name_of(ctx, p) == 'optgroup' and attr(ctx, p, 'disabled') is not None:
            return True
    if fieldset_disableable(ctx, el):
        path_child = el
        for a in doc_ancestors(ctx, el):
            if name_of(ctx, a) == 'fieldset' and attr(ctx, a, 'disabled') is not None:
                if path_child is el:
                    return True
                if not ctx.is_html_el(path_child):
                    pass
                else:
                    legends = [c for c in R.elem_children(a) if R.same_type(ctx, c, path_child)]
                    first_legend = name_of(ctx, path_child) == 'legend' and legends and legends[0] is path_child
                    if not first_legend:
                        return True
            path_child = a
    return False


def enabled(ctx, el):
    return is_form_control(ctx, el) and not disabled(ctx, el)


def checked(ctx, el):
    n = name_of(ctx, el)
    if n == 'input':
        return itype(ctx, el) in ('checkbox', 'radio') and attr(ctx, el, 'checked') is not None
    if n == 'option':
        return attr(ctx, el, 'selected') is not None
    return False


def nearest_form(ctx, el):
    for a in doc_ancestors(ctx, el):
        if name_of(ctx, a) == 'form':
            return a
    return None


def is_submit(ctx, el):
    return name_of(ctx, el) in ('button', 'input') and itype(ctx, el) == 'submit'


def default(ctx, el):
    if checked(ctx, el):
        return True
    if not is_submit(ctx, el):
        return False
    form = nearest_form(ctx, el)
    if form is None:
        return False
    for d in doc_descendants(ctx, form):
        if is_submit(ctx, d):
            return d is el
    return False


def has_nested_form(ctx, doc_top):
    """A form inside a form within one document (the suite pins a browser-imitating bail-out there)."""
    for e in [x for x in doc_top.descendants if isinstance(x, bs4.Tag)]:
        if name_of(ctx, e) == 'form' and nearest_form(ctx, e) is not None:
            return True
    return False


def indeterminate(ctx, el):
    n = name_of(ctx, el)
    if n == 'progress':
        return attr(ctx, el, 'value') is None
    if n != 'input':
        return False
    t = itype(ctx, el)
    if t == 'checkbox':
        return attr(ctx, el, 'indeterminate') is not None
    if t != 'radio' or attr(ctx, el, 'checked') is not None:
        return False
    name = attr(ctx, el, 'name')
    if not name:
        return True
    owner = nearest_form(ctx, el) or doc_root(ctx, el)
    scope_nodes = doc_descendants(ctx, owner)
    for d in scope_nodes:
        if d is el or name_of(ctx, d) != 'input' or itype(ctx, d) != 'radio':
            continue
        if attr(ctx, d, 'name') == name and attr(ctx, d, 'checked') is not None:
            if (nearest_form(ctx, d) or doc_root(ctx, d)) is owner:
                return False
    return True


def required(ctx, el):
    return name_of(ctx, el) in ('input', 'select', 'textarea') and attr(ctx, el, 'required') is not None


def optional(ctx, el):
    return name_of(ctx, el) in ('input', 'select', 'textarea') and attr(ctx, el, 'required') is None


def content_text(el):
    return ''.join(str(s) for s in el.descendants if R.is_text(s))


def placeholder_shown(ctx, el):
    n = name_of(ctx, el)
    ph = attr(ctx, el, 'placeholder')
    if not ph:
        return False
    if n == 'input':
        t = itype(ctx, el)
        if (t or '') not in TEXTISH:
            return False
        if attr(ctx, el, 'value'):
            return False
        return content_text(el) in ('', '\n')
    if n == 'textarea':
        return content_text(el) in ('', '\n')
    return False


def read_write(ctx, el):
    if not ctx.is_html_el(el):
        return False
    n = name_of(ctx, el)
    ce = attr(ctx, el, 'contenteditable')
    if ce is not None and (ce == '' or R.ascii_lower(ce) == 'true'):
        return True
    if n == 'textarea' or (n == 'input' and (itype(ctx, el) or '') in RW_TYPES):
        return attr(ctx, el, 'readonly') is None and not disabled(ctx, el)
    return False


def read_only(ctx, el):
    return ctx.is_html_el(el) and not read_write(ctx, el)


def link(ctx, el):
    return name_of(ctx, el) in ('a', 'area') and attr(ctx, el, 'href') is not None


def range_state(ctx, el, model=None):
    if name_of(ctx, el) != 'input':
        return 'neither'
    return RR.classify(attr(ctx, el, 'type'), attr(ctx, el, 'min'), attr(ctx, el, 'max'), attr(ctx, el, 'value'), model)


def range_affected_by_week53(ctx, el):
    """True when C18's open finding (week 53 accepted in 52-week years) changes this element's range state."""
    return range_state(ctx, el) != range_state(ctx, el, 'week53-dec31-in-week1')


def explicit_dir(ctx, el):
    d = attr(ctx, el, 'dir')
    if d is None:
        return None
    d = R.ascii_lower(d)
    return d if d in ('ltr', 'rtl') else None


def inherited_dir(ctx, el):
    """'ltr'/'rtl' when decided by explicit dir attributes and plain inheritance only; None when auto/bdi/text
    inputs are involved (those are covered by the partition law only)."""
    cur = el
    while cur is not None:
        if not ctx.is_html_el(cur):
            return None
        d = explicit_dir(ctx, cur)
        if d:
            return d
        raw = attr(ctx, cur, 'dir')
        n = name_of(ctx, cur)
        if (raw is not None and R.ascii_lower(raw) == 'auto') or n in ('bdi', 'input', 'textarea'):
            return None
        p = doc_parent(ctx, cur)
        if p is None:
            top = cur.parent
            rooted = top is None or isinstance(top, bs4.BeautifulSoup) or R.is_iframe(ctx, top)
            if rooted and (not isinstance(top, bs4.BeautifulSoup) or ctx.root is cur):
                return 'ltr'
            return None
        cur = p
    return None


def auto_dir(ctx, el):
    """Direction of an element with dir=auto from its text, by the HTML definition: the first character of strong
    direction in a text node descendant, not looking into bdi/script/style/textarea nor into any descendant that has
    a `dir` attribute in a defined state (ltr, rtl, auto - ASCII case-insensitive).  Returns 'ltr'/'rtl', or None when
    this narrow model has no opinion (no strong character: the direction is then inherited; foreign or iframe content
    in the subtree; text inputs)."""
    import unicodedata
    if not ctx.is_html_el(el) or name_of(ctx, el) in ('bdi', 'input', 'textarea'):
        return None
    raw = attr(ctx, el, 'dir')
    if raw is None or R.ascii_lower(raw) != 'auto':
        return None

    class NoOpinion(Exception):
        pass

    def scan(node):
        for c in node.contents:
            if isinstance(c, bs4.Tag):
                if not ctx.is_html_el(c) or R.is_iframe(ctx, c):
                    raise NoOpinion()
                d = attr(ctx, c, 'dir')
                if name_of(ctx, c) in ('bdi', 'script', 'style', 'textarea') or (d is not None and R.ascii_lower(d) in ('ltr', 'rtl', 'auto')):
                    continue
                r = scan(c)
                if r:
                    return r
            elif R.is_text(c):
                for chr_ in str(c):
                    b = unicodedata.bidirectional(chr_)
                    if b == 'L':
                        return 'ltr'
                    if b in ('R', 'AL'):
                        return 'rtl'
        return None
    try:
        return scan(el)
    except NoOpinion:
        return None


DEFS = {
    'checked': checked, 'default': default, 'disabled': disabled, 'enabled': enabled, 'indeterminate': indeterminate,
    'required': required, 'optional': optional, 'placeholder-shown': placeholder_shown, 'read-write': read_write,
    'read-only': read_only, 'link': link, 'any-link': link,
    'in-range': lambda c, e: range_state(c, e) == 'in', 'out-of-range': lambda c, e: range_state(c, e) == 'out',
}


def _ext(name):
    def f(ctx, el, p):
        return bool(ctx.is_html and DEFS[name](ctx, el))
    return f


for _n in DEFS:
    R.EXT[_n] = _ext(_n)
