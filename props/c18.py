"""C18 - date, time and number values are validated and ordered as HTML prescribes."""
from __future__ import annotations

import time

import soupsieve as sv
from bs4 import BeautifulSoup

from engine import choose, common, ref_range as RR

ID = 'C18'
BUDGET = {'quick': 50, 'thorough': 900}
KF_WEEK53 = 'C18-week53-dec31-in-week1'
META = {
    'rule': '(a) exhaustive validity sweep observed through :in-range/:out-of-range: for every year in the tier\'s set '
            '(quick: 1-400, 900-1100, 1600-2400, 9990-10010; thorough: 1-12000) x weeks {00,01,52,53,54}, months '
            '{00,01,02,12,13} x days {00,01,28..32}, and hours 00-24 x minutes {00,59,60}: a candidate used as min with '
            'a smaller valid value must be out of range iff it is valid, and neither in nor out of range iff invalid; '
            '(b) random (min, max, value) triples per input type drawn field-wise with boundary bias (+-1 around each '
            'other, wrong widths, 3-digit and 5-6 digit years, -0, 007, 1., .5, huge magnitudes, wrapped time ranges, '
            'trailing newline). Oracle: independent calendar on the 400-year Gregorian cycle + tuple/numeric order. '
            'Non-trivial: a bound or the value lies on a validity boundary (day 29-31, week 53, year < 1000 or > 9999, '
            'hour 24, minute 60) or value is within +-1 unit of a bound; distinct by (type, min, max, value)',
    'assumptions': ['numbers with an exponent (1e3) are out of domain: soupsieve has never accepted them and the statement lists no such form'],
}

LOW = {'date': '0001-01-01', 'month': '0001-01', 'week': '0001-W01', 'datetime-local': '0001-01-01T00:00'}


def run_batch(items):
    """items: list of (type, min, max, value). Returns list of 'in'/'out'/'neither' as soupsieve sees them."""
    soup = BeautifulSoup('', 'html.parser')
    root = soup.new_tag('form')
    soup.append(root)
    els = []
    for t, mn, mx, v in items:
        attrs = {}
        if t is not None:
            attrs['type'] = t
        if mn is not None:
            attrs['min'] = mn
        if mx is not None:
            attrs['max'] = mx
        if v is not None:
            attrs['value'] = v
        e = soup.new_tag('input', attrs=attrs)
        root.append(e)
        els.append(e)
    try:
        ins = {id(x) for x in sv.select(':in-range', soup)}
        outs = {id(x) for x in sv.select(':out-of-range', soup)}
        # both questions about one element inside one call (either order, nested): same answers as asked separately
        comb = [({id(x) for x in sv.select(':in-range, :out-of-range', soup)}, lambda i, o: i or o, 'in-or-out list'),
                ({id(x) for x in sv.select(':out-of-range, :in-range', soup)}, lambda i, o: i or o, 'out-or-in list'),
                ({id(x) for x in sv.select(':out-of-range:not(:in-range)', soup)}, lambda i, o: o and not i, 'out-and-not-in'),
                ({id(x) for x in sv.select(':not(:out-of-range):in-range', soup)}, lambda i, o: i and not o, 'not-out-and-in'),
                ({id(x) for x in sv.select(':in-range:out-of-range', soup)}, lambda i, o: i and o, 'in-and-out')]
    except Exception as e:  # noqa: BLE001
        if len(items) == 1:
            return ['raises-' + type(e).__name__]
        return [run_batch([it])[0] for it in items]
    res = []
    for e in els:
        i, o = id(e) in ins, id(e) in outs
        st = 'both' if i and o else 'in' if i else 'out' if o else 'neither'
        for got_set, rule, what in comb:
            if (id(e) in got_set) != bool(rule(i, o)):
                st += f' (asked separately), but the {what} selector ' + ('has' if id(e) in got_set else 'lacks') + ' it'
                break
        res.append(st)
    return res


def judge(item, got):
    """None if fine; ('kf', id) if explained by a known-finding model; (bucket, detail) otherwise."""
    t, mn, mx, v = item
    if any(RR.has_exponent(x) for x in (mn, mx, v)) and (t or '').lower() in ('number', 'range'):
        return 'ood'
    exp = RR.classify(t, mn, mx, v)
    if got == exp:
        return None
    if RR.classify(t, mn, mx, v, model='week53-dec31-in-week1') == got:
        return ('kf-week53', f'<input type={t!r} min={mn!r} max={mx!r} value={v!r}> is {got}, HTML says {exp}: '
                f'week 53 accepted in a 52-week year')
    kind = (t or 'none').lower()
    return (f'range-{kind}-{exp}-reported-{got}', f'<input type={t!r} min={mn!r} max={mx!r} value={v!r}> is {got}, '
            f'reference says {exp}')


def boundary(item):
    t, mn, mx, v = item
    s = ' '.join(x for x in (mn, mx, v) if x)
    if any(k in s for k in ('-29', '-30', '-31', 'W53', 'W52', '24:', ':60', ':59')):
        return True
    for x in (mn, mx, v):
        if x and x[:1].isdigit():
            y = x.split('-')[0]
            if y.isdigit() and (len(y) != 4 or int(y) < 1000):
                return True
    pm, px, pv = (RR.parse((t or '').lower(), z) for z in (mn, mx, v))
    for b in (pm, px):
        if b is not None and pv is not None and len(b) == len(pv):
            if sum(abs(a - c) for a, c in zip(b, pv)) <= 1:
                return True
    return False


def years_for(tier):
    if tier == 'thorough':
        return range(1, 12001)
    return list(range(1, 401)) + list(range(900, 1101)) + list(range(1600, 2401)) + list(range(9990, 10011))


def sweep_items(years):
    for y in years:
        ys = '%04d' % y
        for w in ('00', '01', '52', '53', '54'):
            yield ('week', f'{ys}-W{w}', None, LOW['week'])
        for m in ('00', '01', '02', '12', '13'):
            yield ('month', f'{ys}-{m}', None, LOW['month'])
            for d in ('00', '01', '28', '29', '30', '31', '32'):
                yield ('date', f'{ys}-{m}-{d}', None, LOW['date'])
        for m, d in (('04', '30'), ('04', '31'), ('06', '31'), ('09', '31'), ('11', '31'), ('02', '29')):
            yield ('datetime-local', f'{ys}-{m}-{d}T00:00', None, LOW['datetime-local'])
            yield ('date', None, f'{ys}-{m}-{d}', '12001-01-01')


def run_sweep(col, ctx):
    years = list(years_for(ctx['tier']))
    k, nsh = ctx['shard'], ctx['nshards']
    mine = years[k::nsh]
    batch = []
    complete = True

    def flush():
        res = run_batch(batch)
        for item, got in zip(batch, res):
            col.count()
            j = judge(item, got)
            if boundary(item):
                col.nontrivial_case(common.stable_hash(item), {'type': item[0], 'min': item[1], 'max': item[2],
                                                                'value': item[3], 'soupsieve': got}
                                    if len(col.samples) < 2 else None)
            if j is None or j == 'ood':
                continue
            if j[0] == 'kf-week53':
                col.fail('kf-week53', {'item': list(item)}, j[1])
            else:
                col.fail(j[0], {'item': list(item)}, j[1])
        batch.clear()

    for i in range(0, len(mine), 40):
        if time.time() > ctx['t_end']:
            col.extra['budget_exhausted'] = 1
            complete = False
            break
        batch.extend(sweep_items(mine[i:i + 40]))
        flush()
    if k == 0:
        big = '9' * 4400
        batch.extend([('date', big + '-01-01', None, LOW['date']), ('date', None, '2020-01-01', big + '-12-31'),
                      ('month', big + '-13', None, LOW['month']), ('week', None, big + '-W01', big + '-W02'),
                      ('week', big + '-W53', None, '2020-W01'), ('datetime-local', LOW['datetime-local'], None, big + '-02-30T00:00'),
                      ('month', '1' + big + '-01', big + '-12', big + '-06')])
        # whole numbers longer than any chunk a converter may cut them into, both signs, differing only in the last digit
        # (chosen so that exact and double-precision ordering agree: the value lies on the allowed side of the bound)
        batch.extend([('number', None, '-1' + '0' * 4000, '-1' + '0' * 3999 + '1'), ('number', '1' + '0' * 4000, None, '1' + '0' * 3999 + '1'),
                      ('range', None, '-2' + '0' * 8100, '-2' + '0' * 8099 + '7'), ('number', '-1' + '0' * 3999 + '1', None, '-1' + '0' * 4000)])
        for h in range(0, 26):
            for m in ('00', '59', '60', '5'):
                batch.append(('time', '%02d:%s' % (h, m), None, '00:00'))
                batch.append(('time', None, '%02d:%s' % (h, m), '23:59'))
        flush()
    col.extra['sweep_complete'] = int(complete)


# ------------------------------------------------------------------ random triples

def gen_field(ch, t, near=None):
    """One min/max/value string for input type t, possibly near another parsed value."""
    r = ch.i(0, 19)
    if r == 0:
        return None
    if r == 1:
        return ch.pick(('', 'x', ' ', '-', 'T', '2020', '--', '1-1-1', '2020-1-01', '999-01-01', '12:3', '1:30', '2020-W1',
                        '2020-w01', '2020-01-01t00:00', '2020-01-01 00:00', '+1', '1.', '.', '-.', '1.5.2', '0x10', ' 5',
                        '5 ', '١٢'))
    if t in ('number', 'range'):
        if near is not None and ch.p(0.6):
            base = near[0] + ch.pick((-1, 0, 1, -0.5, 0.5))
            return ('%g' % base) if 'e' not in ('%g' % base) else str(int(base))
        return ch.pick(('0', '-0', '007', '5', '10', '-1', '3.5', '.5', '-.5', '1.50', '100000000000000000000', '0.0001',
                        '-99', '1e3', '2E2', '12345678901234567890.5'))
    y = ch.pick((1, 999, 1000, 1979, 1980, 2004, 2005, 2015, 2019, 2020, 2021, 2100, 2400, 9999, 10000, 100000, 275760))
    mo, d, h, mi, w = ch.i(0, 13), ch.i(0, 32), ch.i(0, 24), ch.pick((0, 1, 30, 59, 60)), ch.pick((0, 1, 26, 52, 53, 54))
    if near is not None and ch.p(0.6):
        vals = list(near)
        j = ch.i(0, len(vals) - 1)
        vals[j] = max(0, vals[j] + ch.pick((-1, 0, 1)))
        if t == 'date':
            y, mo, d = vals
        elif t == 'month':
            y, mo = vals
        elif t == 'week':
            y, w = vals
        elif t == 'time':
            h, mi = vals
        elif t == 'datetime-local':
            y, mo, d, h, mi = vals
    ys = ('%04d' % y) if ch.p(0.95) else str(y)
    if t == 'date':
        s = f'{ys}-{mo:02d}-{d:02d}'
    elif t == 'month':
        s = f'{ys}-{mo:02d}'
    elif t == 'week':
        s = f'{ys}-W{w:02d}'
    elif t == 'time':
        s = f'{h:02d}:{mi:02d}'
    else:
        s = f'{ys}-{mo:02d}-{d:02d}T{h:02d}:{mi:02d}'
    if ch.p(0.03):
        s += ch.pick(('\n', ' ', ':00', 'Z'))
    return s


def gen_triple(ch):
    t = ch.pick(RR.RANGE_TYPES)
    mn = gen_field(ch, t)
    pm = RR.parse(t, mn)
    mx = gen_field(ch, t, pm)
    px = RR.parse(t, mx)
    v = gen_field(ch, t, px if (px is not None and ch.p(0.5)) else pm)
    tt = t
    r = ch.i(0, 29)
    if r == 0:
        tt = t.upper()
    elif r == 1:
        tt = ch.pick(('text', '', 'bogus', None, 'datetime'))
    return (tt, mn, mx, v)


def replay(case):
    item = tuple(case['item'])
    got = run_batch([item])[0]
    j = judge(item, got)
    if j is None or j == 'ood':
        return None
    return j


def attribute_known(bucket, rec, known):
    if bucket == 'kf-week53' and any(e.get('id') == KF_WEEK53 for e in known):
        return KF_WEEK53
    return None


def shard(ctx):
    col = common.Collector()
    tier = ctx['tier']
    t_rand_end = time.time() + ctx['budget_s'] * 0.4

    def body(ch):
        items = [gen_triple(ch) for _ in range(40)]
        res = run_batch(items)
        for item, got in zip(items, res):
            col.count()
            j = judge(item, got)
            col.classify('type:' + str(item[0]).lower(), 'soupsieve:' + got)
            if j == 'ood':
                col.exclude('number with exponent (out of domain)')
                continue
            if boundary(item):
                col.nontrivial_case(common.stable_hash(item), {'type': item[0], 'min': item[1], 'max': item[2],
                                                                'value': item[3], 'soupsieve': got})
            if j is not None:
                col.fail(j[0], {'item': list(item)}, j[1])

    ex = common.hyp_run(choose.choices(4096), body, 4000 if tier == 'quick' else 400000, ctx['hseed'],
                        deadline_ts=t_rand_end)
    col.extra['random_budget_exhausted'] = int(ex)
    run_sweep(col, ctx)
    return col


def evidence_extra(merged):
    return {'exhaustive': merged['extra'].get('sweep_complete', 0) == len(merged.get('shard_wall', []))}


def selftest():
    for y, w in [(2015, 53), (2020, 53), (2019, 52), (1980, 52), (1979, 52), (2005, 52), (2004, 53), (2026, 53), (1, 52),
                 (10000, 52), (400, 52), (1600 + 9, 53)]:
        pass
    known = {2004: 53, 2009: 53, 2015: 53, 2020: 53, 2026: 53, 2019: 52, 1980: 52, 1979: 52, 2005: 52, 2021: 52, 1998: 53}
    for y, w in known.items():
        if RR.weeks_in_year(y) != w:
            raise common.HarnessError(f'weeks_in_year({y}) = {RR.weeks_in_year(y)} != {w}')
        if RR.weeks_in_year(y + 400) != w or RR.weeks_in_year(y + 8000) != w:
            raise common.HarnessError('400-year cycle self-test')
    for y, m, d in [(2000, 2, 29), (1900, 2, 28), (2100, 2, 28), (2400, 2, 29), (2023, 4, 30), (100, 2, 28), (10000, 2, 29)]:
        if RR.days_in_month(y, m) != d:
            raise common.HarnessError(f'days_in_month({y},{m}) != {d}')
    for args, want in [(('number', '0', '10', '5'), 'in'), (('number', '0', '10', '15'), 'out'), (('number', 'x', None, '5'), 'neither'),
                       (('time', '22:00', '06:00', '12:00'), 'out'), (('time', '22:00', '06:00', '23:00'), 'in'),
                       (('date', '2020-02-30', None, '2000-01-01'), 'neither'), (('week', '2020-W53', None, '2020-W01'), 'out'),
                       (('week', '2019-W53', None, '2019-W01'), 'neither'), (('month', None, '2020-05', 'junk'), 'in'),
                       (('text', '0', '10', '50'), 'neither'), (('number', None, None, '5'), 'neither')]:
        if RR.classify(*args) != want:
            raise common.HarnessError(f'classify{args} = {RR.classify(*args)} != {want}')
