"""E2 - selector AST (plain JSON data) and renderer.  The oracle interprets the AST; soupsieve the text.

selector_list := [complex...]
complex       := [{"comb": None|" "|">"|"+"|"~", "c": compound}, ...]   (comb of item 0 is the *leading*
                 combinator: None normally, any of the four inside :has())
compound      := {"tag": None|{"ns": None|"*"|""|prefix, "name": "*"|str}, "ids":[str], "classes":[str],
                  "attrs":[attr], "ps":[pseudo]}
attr          := {"ns": None|"*"|""|prefix, "name": str, "op": None|"="|"~="|"|="|"^="|"$="|"*="|"!=",
                  "val": str, "flag": None|"i"|"s"}
pseudo        := {"p": NAME, ...}  see render_pseudo
"""
from __future__ import annotations

SIMPLE = (
    'root', 'empty', 'first-child', 'last-child', 'only-child', 'first-of-type', 'last-of-type', 'only-of-type',
    'scope', 'checked', 'default', 'disabled', 'enabled', 'indeterminate', 'optional', 'required',
    'placeholder-shown', 'read-only', 'read-write', 'in-range', 'out-of-range', 'link', 'any-link', 'defined',
)
NO_MATCH = (
    'active', 'current', 'focus', 'focus-visible', 'focus-within', 'future', 'host', 'hover', 'local-link', 'past',
    'paused', 'playing', 'target', 'target-within', 'user-invalid', 'visited',
)
NO_MATCH_FN = ('current', 'host', 'host-context')
LOGICAL = ('not', 'is', 'where', 'matches', 'has')
NTH = ('nth-child', 'nth-last-child', 'nth-of-type', 'nth-last-of-type')


def _is_name_start(c):
    return c == '_' or 'a' <= c <= 'z' or 'A' <= c <= 'Z' or ord(c) >= 0xA0


def _is_name(c):
    return _is_name_start(c) or c == '-' or '0' <= c <= '9'


def ident(s):
    """CSSOM 'serialize an identifier', restricted to what every CSS grammar version accepts raw
    (C1 controls and everything non-name is escaped)."""
    if s == '':
        raise ValueError('empty identifier')
    out = []
    for i, c in enumerate(s):
        o = ord(c)
        if o == 0:
            out.append('\ufffd')
        elif o <= 0x1f or 0x7f <= o <= 0x9f:
            out.append('\\%x ' % o)
        elif '0' <= c <= '9' and (i == 0 or (i == 1 and s[0] == '-')):
            out.append('\\%x ' % o)
        elif i == 0 and c == '-' and len(s) == 1:
            out.append('\\-')
        elif _is_name(c):
            out.append(c)
        else:
            out.append('\\' + c)
    return ''.join(out)


def cssstring(s, quote='"'):
    out = [quote]
    for c in s:
        o = ord(c)
        if c == quote or c == '\\':
            out.append('\\' + c)
        elif o == 0:
            out.append('\ufffd')
        elif c in '\n\r\f' or o < 0x20 or o == 0x7f:
            out.append('\\%x ' % o)
        else:
            out.append(c)
    out.append(quote)
    return ''.join(out)


def render_nsprefix(ns):
    if ns is None:
        return ''
    if ns == '*':
        return '*|'
    if ns == '':
        return '|'
    return ident(ns) + '|'


def render_anb(a, b):
    return '%dn%+d' % (a, b)


def render_pseudo(p):
    n = p['p']
    if n in LOGICAL:
        return ':' + p.get('alias', n) + '(' + render_list(p['args']) + ')'
    if n in NTH:
        s = ':' + n + '(' + (p.get('text') or render_anb(p['a'], p['b']))
        if p.get('of') is not None:
            s += ' of ' + render_list(p['of'])
        return s + ')'
    if n == 'contains':
        name = p.get('alias') or ('-soup-contains-own' if p.get('own') else '-soup-contains')
        return ':' + name + '(' + ', '.join(cssstring(v) for v in p['vals']) + ')'
    if n == 'lang':
        return ':lang(' + ', '.join(cssstring(v) for v in p['vals']) + ')'
    if n == 'dir':
        return ':dir(' + p['d'] + ')'
    if n == 'amp':
        return '&'
    if n == 'custom':
        return ':' + ident(p['name'])
    if n == 'nomatch-fn':
        return ':' + p['name'] + '(' + render_list(p['args']) + ')'
    if n == 'nomatch':
        return ':' + p['name']
    return ':' + n


def render_attr(a):
    s = '[' + render_nsprefix(a.get('ns')) + ident(a['name'])
    if a.get('op'):
        s += a['op'] + cssstring(a['val'])
        if a.get('flag'):
            s += ' ' + a['flag']
    return s + ']'


def render_compound(c):
    out = []
    amp_first = [p for p in c.get('ps', []) if p['p'] == 'amp']
    t = c.get('tag')
    if t is not None:
        out.append(render_nsprefix(t.get('ns')) + ('*' if t['name'] == '*' else ident(t['name'])))
    for i in c.get('ids', []):
        out.append('#' + ident(i))
    for k in c.get('classes', []):
        out.append('.' + ident(k))
    for a in c.get('attrs', []):
        out.append(render_attr(a))
    for p in c.get('ps', []):
        out.append(render_pseudo(p))
    if not out:
        out.append('*')
    del amp_first
    return ''.join(out)


def render_complex(cx):
    out = []
    for i, part in enumerate(cx):
        comb = part.get('comb')
        if i == 0:
            if comb and comb != ' ':
                out.append(comb + ' ')
        else:
            out.append(' ' if comb == ' ' else f' {comb} ')
        out.append(render_compound(part['c']))
    return ''.join(out)


def render_list(sl):
    return ', '.join(render_complex(c) for c in sl)


def compound(tag=None, ids=(), classes=(), attrs=(), ps=(), ns=None):
    t = None if tag is None else {'ns': ns, 'name': tag}
    return {'tag': t, 'ids': list(ids), 'classes': list(classes), 'attrs': list(attrs), 'ps': list(ps)}


def cx(*parts):
    """cx(c1, '>', c2, ' ', c3) -> complex"""
    out = []
    comb = None
    for p in parts:
        if isinstance(p, str):
            comb = p
        else:
            out.append({'comb': comb, 'c': p})
            comb = ' '
    return out


def walk_pseudos(sl):
    """Yield every pseudo dict in a selector list, recursively."""
    for c in sl:
        for part in c:
            for p in part['c'].get('ps', []):
                yield p
                for key in ('args', 'of'):
                    if p.get(key):
                        yield from walk_pseudos(p[key])


def walk_compounds(sl):
    for c in sl:
        for part in c:
            yield part['c']
            for p in part['c'].get('ps', []):
                for key in ('args', 'of'):
                    if p.get(key):
                        yield from walk_compounds(p[key])


def depth(sl):
    d = 0
    for c in sl:
        for part in c:
            for p in part['c'].get('ps', []):
                for key in ('args', 'of'):
                    if p.get(key):
                        d = max(d, 1 + depth(p[key]))
    return d
