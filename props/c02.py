"""C02 - positional pseudo-classes implement An+B exactly (exhaustive box + random + spellings)."""
from __future__ import annotations

import itertools
import time

import soupsieve as sv

from engine import choose, common, refmatch as R, selast as S, trees, witness

ID = 'C02'
BUDGET = {'quick': 50, 'thorough': 900}
META = {
    'rule': 'box: every (A,B) in a box x 4 pseudo-classes x "of S" filters x every sibling sequence up to a length '
            'over {a, a.k, b, b.k} x gap fillings (none/text/comment/mixed) x placement (inside an element, directly '
            'under the document, detached root); random: |A|,|B| up to 10^4 (sparsely 10^6), up to 30 siblings, '
            'namespaced types; spellings: every accepted spelling of each (A,B). Oracle: position among element '
            'siblings by definition + divisibility. Non-trivial: selected set is a non-empty proper subset of the '
            'siblings, or a term of (A,B) equals 0, 1, the sibling count or the node count',
    'assumptions': ['matching cost is linear in |B| (observation), so |B| > 10^4 is only drawn with <= 3 siblings'],
    'exhaustive': True,
}

PSEUDOS = ('nth-child', 'nth-last-child', 'nth-of-type', 'nth-last-of-type')
OF_S = {
    'none': None,
    'a': [S.cx(S.compound('a'))],
    '.k': [S.cx(S.compound(None, classes=['k']))],
    ':not(a)': [S.cx(S.compound(None, ps=[{'p': 'not', 'args': [S.cx(S.compound('a'))]}]))],
    'x > a': [S.cx(S.compound('x'), '>', S.compound('a'))],
}
SIB_TYPES = (('a', False), ('a', True), ('b', False), ('b', True))
GAPS = ('none', 'text', 'comment', 'mixed')
KEYWORD_PSEUDOS = ('first-child', 'last-child', 'only-child', 'first-of-type', 'last-of-type', 'only-of-type')


def gap_nodes(mode, i):
    if mode == 'none':
        return []
    if mode == 'text':
        return [trees.T('\n  ')]
    if mode == 'comment':
        return [trees.C('c'), {'k': 'cd', 's': 'd'}]
    return [[trees.T(' x '), trees.C('c')], [], [trees.T('\n')]][i % 3]


def sibling_recipe(seq, gap, placement):
    kids = []
    for i, (name, k) in enumerate(seq):
        kids.extend(gap_nodes(gap, i))
        kids.append(trees.E(name, [[None, None, 'class', ['k']]] if k else []))
    kids.extend(gap_nodes(gap, len(seq)))
    if placement == 'doc':
        return {'kind': 'html-api', 'top': kids, 'detach': None}
    rec = {'kind': 'html-api', 'top': [trees.E('x', [], kids)], 'detach': None}
    if placement == 'detached':
        rec['detach'] = [0]
    return rec


def box_selectors(amax, bmax):
    out = []
    for a in range(-amax, amax + 1):
        for b in range(-bmax, bmax + 1):
            for p in PSEUDOS:
                if 'of-type' in p:
                    out.append({'p': p, 'a': a, 'b': b, 'of': None})
                else:
                    for of in OF_S.values():
                        out.append({'p': p, 'a': a, 'b': b, 'of': of})
    for p in KEYWORD_PSEUDOS:
        out.append({'p': p})
    return out


def sel_of(pseudo, tag=None):
    return [S.cx(S.compound(tag, ps=[pseudo]))]


def compare(col, doc, sel, text, comp, case, also_root=True):
    """Compare select() (and match() on a detached root) with the reference for one selector."""
    rctx = R.Ctx(doc.target, case.get('nsmap') if isinstance(case, dict) else None)
    els = doc.elements()
    exp = [d for d in els if R.match_list(rctx, d, sel)]
    col.count()
    if isinstance(case, dict) and case.get('huge'):
        # astronomically large terms: run under the CPU-time interrupt (a walk that steps one n at a time never returns)
        kind, got = common.guarded_call(lambda: comp.select(doc.target))
        if kind in ('hang', 'slow'):
            if kind == 'hang':
                col.fail('nth-does-not-terminate', case, f'{text!r}: select() burnt 10 s of CPU and then exceeded 3000000 traced steps')
            return exp, els
        if kind == 'raise':
            col.fail('exception-' + type(got).__name__, case, f'{text!r}: {got!r}')
            return exp, els
    else:
        try:
            got = comp.select(doc.target)
        except Exception as e:  # noqa: BLE001
            col.fail('exception-' + type(e).__name__, case, f'{text!r}: {e!r}')
            return exp, els
    if [id(x) for x in got] != [id(x) for x in exp]:
        order = {id(e): j for j, e in enumerate(els)}
        col.fail('nth-mismatch', case, f'{text!r} on {str(doc.target)!r}: soupsieve {[order.get(id(x)) for x in got]} '
                 f'reference {[order.get(id(x)) for x in exp]}')
    if also_root and not isinstance(doc.target, trees.BeautifulSoup):
        col.count()
        e = R.match_list(rctx, doc.target, sel)
        if isinstance(case, dict) and case.get('huge'):
            kind, g = common.guarded_call(lambda: comp.match(doc.target))
            if kind == 'hang':
                col.fail('nth-does-not-terminate', case, f'match({text!r}) on the detached root burnt 10 s of CPU and then exceeded 3000000 traced steps')
            if kind != 'ok':
                if kind == 'raise':
                    col.fail('exception-' + type(g).__name__, case, f'match({text!r}) on the detached root: {g!r}')
                return exp, els
        else:
            try:
                g = comp.match(doc.target)
            except Exception as ex:  # noqa: BLE001
                col.fail('exception-' + type(ex).__name__, case, f'match({text!r}) on the detached root: {ex!r}')
                return exp, els
        if bool(g) != bool(e):
            col.fail('nth-mismatch-detached-root', case, f'{text!r}: match(detached root) soupsieve {g} reference {e}')
    return exp, els


def run_box(col, ctx):
    tier = ctx['tier']
    amax, bmax, maxlen = (3, 5, 3) if tier == 'quick' else (6, 9, 5)
    sels = []
    for p in box_selectors(amax, bmax):
        sel = sel_of(p)
        text = S.render_list(sel)
        sels.append((p, sel, text, sv.compile(text)))
    docs = []
    for n in range(0, maxlen + 1):
        for seq in itertools.product(SIB_TYPES, repeat=n):
            for gap in GAPS:
                for placement in ('elem', 'doc', 'detached'):
                    if placement == 'doc' and n == 0:
                        continue
                    docs.append((seq, gap, placement))
    k, nsh = ctx['shard'], ctx['nshards']
    done = 0
    for di, (seq, gap, placement) in enumerate(docs):
        if di % nsh != k:
            continue
        if time.time() > ctx['t_end']:
            col.extra['budget_exhausted'] = 1
            col.extra['box_complete'] = 0
            return
        rec = sibling_recipe(seq, gap, placement)
        doc = trees.materialise(rec)
        nsib = len(seq)
        nnodes = len(doc.target.contents) if placement == 'doc' else len(
            (doc.target if placement == 'detached' else doc.soup.contents[0]).contents)
        for p, sel, text, comp in sels:
            case = {'seq': [list(s) for s in seq], 'gap': gap, 'placement': placement, 'pseudo': p}
            exp, els = compare(col, doc, sel, text, comp, case)
            inner = [e for e in els if e.name != 'x']
            nexp = len([e for e in exp if e.name != 'x'])
            boundary = 'a' in p and (p['a'] in (0, 1) or p['b'] in (0, 1, nsib, nnodes, nnodes - 1))
            if 0 < nexp < len(inner) or (boundary and nsib):
                col.nontrivial_case(['box', di, text],
                                    {'tree': str(doc.target), 'selector': text, 'selected': nexp, 'siblings': nsib}
                                    if (di + len(text)) % 997 == 0 else None)
        done += 1
    col.classify('box-docs', )
    col.extra['box_docs'] = done
    col.extra['box_selectors'] = len(sels) if k == 0 else 0
    col.extra['box_complete'] = 1


# ------------------------------------------------------------------ spellings

def spellings(a, b):
    """All accepted spellings of An+B that this harness knows (each must mean exactly (a, b))."""
    out = {'%dn%+d' % (a, b)}
    sb = '%+d' % b
    if b == 0:
        out.add('%dn' % a)
        out.add('%dN' % a)
    if a == 0:
        out.add('%d' % b)
        if b >= 0:
            out.add('+%d' % b)
        out.add('-0n%+d' % b)
        out.add('+0n%+d' % b)
    if a == 1:
        out.update(['n' + sb, '+n' + sb, 'N' + sb, '1n' + sb, '+1n' + sb, '01n' + sb])
        if b == 0:
            out.update(['n', '+n', 'N'])
    if a == -1:
        out.update(['-n' + sb, '-N' + sb, '-1n' + sb])
        if b == 0:
            out.add('-n')
    sign, mag = sb[0], sb[1:]
    for ws1, ws2 in ((' ', ' '), ('\n', '\t'), ('', ' '), (' ', ''), ('/**/', '/* x */'), (' \r\n', '\f')):
        out.add('%dn%s%s%s%s' % (a, ws1, sign, ws2, mag))
    out.add('%dn%s0%s' % (a, sign, mag))
    out.add(('%s0%dn%s' % ('-' if a < 0 else '', abs(a), sb)))
    if a >= 0:
        out.add('+%dn%s' % (a, sb))
    if (a, b) == (2, 0):
        out.update(['even', 'EVEN', 'Even'])
    if (a, b) == (2, 1):
        out.update(['odd', 'ODD', 'oDd'])
    return sorted(out)


def run_spellings(col, ctx):
    tier = ctx['tier']
    amax, bmax = (4, 6) if tier == 'quick' else (12, 15)
    seq = [SIB_TYPES[i % 4] for i in (0, 2, 1, 0, 3, 2, 0)]
    docs = [trees.materialise(sibling_recipe(seq, g, 'elem')) for g in ('none', 'mixed')]
    pairs = [(a, b) for a in range(-amax, amax + 1) for b in range(-bmax, bmax + 1)]
    k, nsh = ctx['shard'], ctx['nshards']
    nsp = 0
    for pi, (a, b) in enumerate(pairs):
        if pi % nsh != k:
            continue
        for sp in spellings(a, b):
            for p in PSEUDOS:
                for of_name, of in (('none', None), ('a', OF_S['a'])):
                    if of is not None and 'of-type' in p:
                        continue
                    pseudo = {'p': p, 'a': a, 'b': b, 'of': of, 'text': sp}
                    sel = sel_of(pseudo)
                    text = S.render_list(sel)
                    if of is not None and (pi + len(sp)) % 2:
                        text = text.replace(' of ', '\tOF\n')
                    case = {'spelling': sp, 'text': text, 'pseudo': {'p': p, 'a': a, 'b': b, 'of': of}}
                    try:
                        comp = sv.compile(text)
                    except Exception as e:  # noqa: BLE001
                        col.count()
                        col.fail('spelling-rejected', case, f'{text!r} rejected: {e!r}'[:300])
                        continue
                    for doc in docs:
                        compare(col, doc, sel, text, comp, case, also_root=False)
                    nsp += 1
                    if sp != '%dn%+d' % (a, b):
                        col.nontrivial_case(['sp', text], {'spelling': text, 'means': [a, b]} if nsp % 499 == 0 else None)
    col.extra['spellings_checked'] = nsp


# ------------------------------------------------------------------ random

CFG = witness.Cfg(nth=True, nth_of=True, names=('a', 'b', 'p'))


def gen_case(ch, tier):
    big = ch.i(0, 9) == 0
    wide = ch.i(0, 2) == 0
    kinds = ('html-api', 'xml-api', 'html.parser', 'lxml', 'html5lib', 'lxml-xml')
    if wide:
        n = ch.i(1, 3 if big else 30)
        kind = ch.pick(('html-api', 'xml-api'))
        ns_choices = (None, 'urn:a') if kind == 'xml-api' else (None,)
        kids = []
        for i in range(n):
            for _ in range(ch.i(0, 2)):
                kids.append(trees.string_node(ch, ('t', 'c', 'cd')))
            kids.append(trees.E(ch.pick(('a', 'b', 'A')), [[None, None, 'class', 'k']] if ch.p(0.4) else [],
                                ns=ch.pick(ns_choices)))
        where = ch.i(0, 2)
        top = kids if where == 0 else [trees.E('x', [], kids)]
        recipe = {'kind': kind, 'top': top, 'detach': [0] if where == 2 else None}
    else:
        recipe = trees.gen_recipe(ch, kinds=kinds, names=('a', 'b', 'p'), max_elems=14 if tier == 'quick' else 30)
    doc = trees.materialise(recipe)
    if not doc.all_elements():
        recipe = {'kind': 'html-api', 'top': [trees.E('a')], 'detach': None}
        doc = trees.materialise(recipe)
    g = witness.Gen(ch, doc, CFG)
    el = ch.pick(g.elems)
    p = g.nth_for(el)
    mag = 10 ** 6 if big else ch.pick((8, 8, 40, 10 ** 4))
    huge = ch.i(0, 14) == 0
    if huge:
        # beyond what a float holds exactly (2**53) and far beyond: the arithmetic has to be exact integer arithmetic
        mag = ch.pick((2 ** 53 + 2, 10 ** 16 + 1, 10 ** 18, 10 ** 30, 10 ** 100))
        p['a'] = ch.pick((1, -1, 2, -2, 3, -3, 7, -7))
        p['b'] = ch.pick((1, -1)) * (mag + ch.i(-4, 4)) if p['a'] * ch.pick((1, 1, -1)) < 0 or ch.p(0.3) else -(mag + ch.i(-4, 4))
    elif ch.p(0.5):
        p['a'] = ch.i(-mag, mag) if not big else ch.i(-5, 5)
        if ch.p(0.5):
            p['b'] = ch.i(-mag, mag)
        else:
            sibs = R.elem_siblings(el)
            pos = ch.i(1, len(sibs))
            p['b'] = pos - p['a'] * ch.i(0, 3)
    tag = None
    if ch.p(0.3):
        tag = el.name
    sel = [S.cx(S.compound(tag, ps=[p]))]
    if ch.p(0.3):
        sel = [g.complex_for(el, 1, 2)]
        sel[0][-1]['c']['ps'].append(p)
    nsmap = None
    if recipe['kind'] in ('xml-api', 'lxml-xml') and ch.p(0.5):
        nsmap = ch.pick(({'': 'urn:a'}, {'': ''}, {'p': 'urn:a'}, {'': 'urn:none'}))
    return {'tree': recipe, 'sel': sel, 'nsmap': nsmap, 'huge': bool(huge)}, doc


def evaluate(case, doc=None):
    if doc is None:
        doc = trees.materialise(case['tree'])
    col = common.Collector()
    text = S.render_list(case['sel'])
    try:
        comp = sv.compile(text, case.get('nsmap'))
    except Exception as e:  # noqa: BLE001
        return ('compile-' + type(e).__name__, f'{text!r}: {e!r}'), None
    exp, els = compare(col, doc, case['sel'], text, comp, case)
    if col.failures:
        b = sorted(col.failures)[0]
        return (b, col.failures[b]['cases'][0]['detail']), (exp, els, text)
    return None, (exp, els, text)


def replay(case):
    if 'tree' in case:
        return evaluate(case)[0]
    col = common.Collector()
    if 'spelling' in case:
        pseudo = dict(case['pseudo'], text=case['spelling'])
        sel = sel_of(pseudo)
        try:
            comp = sv.compile(case['text'])
        except Exception as e:  # noqa: BLE001
            return ('spelling-rejected', f'{case["text"]!r} rejected: {e!r}')
        seq = [SIB_TYPES[i % 4] for i in (0, 2, 1, 0, 3, 2, 0)]
        for g in ('none', 'mixed'):
            compare(col, trees.materialise(sibling_recipe(seq, g, 'elem')), sel, case['text'], comp, case, False)
    else:
        seq = [tuple(s) for s in case['seq']]
        doc = trees.materialise(sibling_recipe(seq, case['gap'], case['placement']))
        sel = sel_of(case['pseudo'])
        text = S.render_list(sel)
        compare(col, doc, sel, text, sv.compile(text), case)
    if col.failures:
        b = sorted(col.failures)[0]
        return (b, col.failures[b]['cases'][0]['detail'])
    return None


def shard(ctx):
    col = common.Collector()
    tier = ctx['tier']
    t_random_end = time.time() + ctx['budget_s'] * 0.4

    def body(ch):
        case, doc = gen_case(ch, tier)
        out, info = evaluate(case, doc)
        col.count(2)
        col.classify('random:' + case['tree']['kind'])
        if case.get('nsmap'):
            col.classify('random:namespace-map')
        if out:
            col.fail(out[0], case, out[1])
        if info:
            exp, els, text = info
            p = [q for q in S.walk_pseudos(case['sel']) if q['p'] in PSEUDOS]
            if p and max(abs(p[0]['a']), abs(p[0]['b'])) > 100:
                col.classify('random:large-coefficient')
            if p and p[0].get('of'):
                col.classify('random:of-S')
            if exp:
                col.classify('random:nonempty')
            if 0 < len(exp) < len(els):
                col.nontrivial_case([case['tree'], text], {'selector': text, 'kind': case['tree']['kind'],
                                                           'selected': len(exp), 'elements': len(els)})

    ex = common.hyp_run(choose.choices(2048), body, 50000 if tier == 'quick' else 3000000, ctx['hseed'],
                        deadline_ts=t_random_end)
    col.extra['random_budget_exhausted'] = int(ex)
    run_spellings(col, ctx)
    run_box(col, ctx)
    return col


def selftest():
    for a, b, pos, want in [(2, 1, 1, True), (2, 1, 2, False), (-1, 3, 3, True), (-1, 3, 4, False), (0, 2, 2, True),
                            (1, 2, 1, False), (1, 2, 2, True), (2, -2, 2, True), (-2, -2, 2, False), (3, 0, 3, True),
                            (0, 0, 1, False)]:
        if R.anb(a, b, pos) != want:
            raise common.HarnessError(f'anb({a},{b},{pos}) != {want}')
    import bs4
    soup = bs4.BeautifulSoup('<ul><li id="1"/><p id="2"/><li id="3" class="k"/><li id="4"/></ul>', 'xml')
    for sel, exp in [
        ([S.cx(S.compound('li', ps=[{'p': 'nth-of-type', 'a': 2, 'b': 1}]))], ['1', '4']),
        ([S.cx(S.compound(None, ps=[{'p': 'nth-last-child', 'a': 0, 'b': 2}]))], ['3']),
        ([S.cx(S.compound(None, ps=[{'p': 'nth-child', 'a': 1, 'b': 2, 'of': OF_S['.k']}]))], []),
        ([S.cx(S.compound(None, ps=[{'p': 'nth-child', 'a': 0, 'b': 2, 'of': [S.cx(S.compound('li'))]}]))], ['3']),
    ]:
        got = [e['id'] for e in R.select(sel, soup)]
        if got != exp:
            raise common.HarnessError(f'reference nth self-test {S.render_list(sel)}: {got} != {exp}')


def evidence_extra(merged):
    complete = merged['extra'].get('box_complete', 0) == len(merged.get('shard_wall', []))
    return {'exhaustive': bool(complete),
            'box': 'A in [-3,3], B in [-5,5], <=3 siblings (quick) / A in [-6,6], B in [-9,9], <=5 siblings (thorough) '
                   'over {a,a.k,b,b.k} x 4 gap fillings x 3 placements x 4 pseudo-classes x 5 "of S" filters'}
