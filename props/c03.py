"""C03 - all query entry points are views of one match relation."""
from __future__ import annotations

import contextlib
import io
import warnings

import bs4
import soupsieve as sv

from engine import choose, common, fullgrammar as FG, htmldoc, refmatch as R, selast as S, trees, witness

ID = 'C03'
BUDGET = {'quick': 50, 'thorough': 900}
META = {
    'rule': 'case = tree x selector (C01 grammar + :scope + & + custom aliases, judged by the reference matcher with '
            'scope = call target; or a full-grammar selector, judged by identities between entry points) x call '
            'target (element, document, detached element) x limit in {-3,-1,0,1,2,k} x combinations of the optional '
            'namespaces/flags/custom arguments passed positionally or by keyword; all six entry points, module-level '
            'and compiled. Non-trivial: the result is non-empty and (limit truncates, or the target is not the '
            'document, or the selector uses :scope/&, or custom/namespaces is supplied); distinct by (tree, selector, '
            'target, arguments)',
    'assumptions': ['filter(iterable) is only given Tags and NavigableStrings (what tag.contents holds)',
                    'exceptions are compared by type'],
}

CUSTOM_TEXT = {':--hdr': 'a, b.k', ':--Deep': 'div :--hdr'}
CUSTOM_AST = {
    '--hdr': [S.cx(S.compound('a')), S.cx(S.compound('b', classes=['k']))],
    '--deep': [S.cx(S.compound('div'), ' ', S.compound(None, ps=[{'p': 'custom', 'name': '--hdr'}]))],
}
NS_CHOICES = [('omitted', None), ('none', None), ('empty', {}), ('map', {'x': 'urn:x'}),
              ('default-xhtml', {'': trees.NS_XHTML}), ('xml-map', {'p': 'urn:a', 'q': 'urn:b', '': 'urn:a'})]
CFG = witness.Cfg(nth=True, nth_of=True, scope=True)
FGCFG = FG.Cfg(scope=False, contains_alias=False)
MEMO_POOL = (':default', 'form :default', ':indeterminate', ':has(> :default)', ':lang(en)', ':lang("")', ':dir(rtl)',
             ':not(:default)', 'button:default, input:default', ':is(:dir(ltr), :dir(rtl))', ':checked')


def ids(lst):
    return [id(x) for x in lst]


def quiet(fn, *a, **k):
    with contextlib.redirect_stdout(io.StringIO()), warnings.catch_warnings():
        warnings.simplefilter('ignore')
        return fn(*a, **k)


XML_NS = {'p': 'urn:a', 'q': 'urn:b', '': 'urn:a'}
XML_POOL = ('p|a:not(:checked)', 'a:not(:link)', 'q|*:not(:disabled), b', '*|a:has(> p|b):not(:required)', '[p|k]:not(:checked)',
            ':not(:enabled) > a', 'b, *|c:not(:any-link)', 'p|*:nth-child(odd):not(:optional)', 'p|a, :disabled', ':root', 'q|b:root')


def gen_case(ch, tier):
    if ch.p(0.1):
        from props import c12
        recipe = c12.gen_xml_recipe(ch, ch.pick(('xml-api', 'lxml-xml')))
        doc = trees.materialise(recipe)
        els = doc.all_elements()
        return {'tree': recipe, 'sel': None, 'text': ch.pick(XML_POOL), 'targets': [-1 if ch.p(0.4) else ch.i(0, len(els) - 1)],
                'args': {'ns': 'xml-map', 'flags': 'omitted', 'custom': 'omitted', 'positional': ch.p(0.5),
                         'limits': [ch.pick((-1, 0, 1, 2))], 'perm': [ch.i(0, 50) for _ in range(4)]}}, doc
    if ch.p(0.25):
        recipe, _fl = htmldoc.gen_html_doc(ch, kinds=htmldoc.HTML_KINDS, depth=2, memo_rich=True)
    else:
        recipe = trees.gen_recipe(ch, max_elems=10 if tier == 'quick' else 20)
    doc = trees.materialise(recipe)
    if not doc.all_elements():
        recipe = {'kind': 'html-api', 'top': [trees.E('a')], 'detach': None}
        doc = trees.materialise(recipe)
    els = doc.all_elements()
    # call targets: index into all_elements, or -1 for the top-most object
    targets = [-1 if ch.p(0.3) else ch.i(0, len(els) - 1) for _ in range(ch.i(1, 2))]
    use_custom = ch.p(0.25)
    modelled = ch.p(0.75)
    if modelled:
        tgt = doc.top() if targets[0] == -1 else els[targets[0]]
        g = witness.Gen(ch, doc, CFG, ctx=R.Ctx(tgt))
        sel = g.selector_list()
        if use_custom:
            sel[0][-1]['c']['ps'].append({'p': 'custom', 'name': ch.pick(('--hdr', '--deep', '--HDR'))})
        text = S.render_list(sel)
    else:
        sel = None
        text = ch.pick(MEMO_POOL) if ch.p(0.4) else S.render_list(FG.gen_list(ch, FGCFG, max_items=2))
    args = {
        'ns': ch.pick(NS_CHOICES[:5])[0],
        'flags': ch.pick(('omitted', 'zero', 'debug')),
        'custom': 'map' if use_custom else ch.pick(('omitted', 'none', 'map')),
        'positional': ch.p(0.5),
        'limits': [ch.pick((-3, -1, 0, 1, 2, 3, 5)) for _ in range(2)],
        'perm': [ch.i(0, 50) for _ in range(6)],
    }
    return {'tree': recipe, 'sel': sel, 'text': text, 'targets': targets, 'args': args}, doc


def build_args(a):
    ns = dict(NS_CHOICES)[a['ns']]
    ckw = {}
    if a['ns'] != 'omitted':
        ckw['namespaces'] = ns
    if a['flags'] != 'omitted':
        ckw['flags'] = sv.DEBUG if a['flags'] == 'debug' else 0
    if a['custom'] != 'omitted':
        ckw['custom'] = dict(CUSTOM_TEXT) if a['custom'] == 'map' else None
    return ns, ckw


def module_call(name, text, target, a, ckw, limit=None):
    """Call the module-level function with the optional arguments positionally or by keyword."""
    fn = getattr(sv, name)
    has_limit = name in ('select', 'iselect')
    if a['positional'] and 'namespaces' in ckw and 'flags' in ckw:
        pos = [text, target, ckw['namespaces']]
        if has_limit:
            pos.append(0 if limit is None else limit)
        pos.append(ckw['flags'])
        kw = {k: v for k, v in ckw.items() if k == 'custom'}
        out = fn(*pos, **kw)
    else:
        kw = dict(ckw)
        if has_limit and limit is not None:
            kw['limit'] = limit
        out = fn(text, target, **kw)
    if name == 'iselect':
        out = list(out)
    return out


def check_target(case, doc, target, col=None):
    """Return list of (bucket, detail) for one call target."""
    a = case['args']
    text = case['text']
    ns, ckw = build_args(a)
    fails = []

    def bad(bucket, detail):
        fails.append((bucket, f'{detail} [selector {text!r}, args {a}]'))

    try:
        comp = quiet(sv.compile, text, **ckw)
    except Exception as e:  # noqa: BLE001
        bad('compile-raises-' + type(e).__name__, repr(e)[:200])
        return fails, {}
    is_doc = isinstance(target, bs4.BeautifulSoup)
    desc = R.elem_descendants(target)
    try:
        r_select = quiet(comp.select, target)
    except Exception as e:  # noqa: BLE001
        bad('select-raises-' + type(e).__name__, repr(e)[:200])
        return fails, {}
    info = {'n': len(r_select), 'ndesc': len(desc)}
    # shape: descendants only, document order, no duplicates, only Tags
    order = {id(d): i for i, d in enumerate(desc)}
    pos = [order.get(id(x)) for x in r_select]
    if any(p is None for p in pos):
        bad('select-yields-non-descendant', 'select returned the target itself, a non-element or a foreign node')
    elif pos != sorted(set(pos)):
        bad('select-order-or-duplicates', f'positions {pos}')
    # reference relation
    custom_ast = CUSTOM_AST if 'custom' in ckw and ckw['custom'] else {}
    if case['sel'] is not None:
        rctx = R.Ctx(target, ns, custom_ast)
        exp = [d for d in desc if R.match_list(rctx, d, case['sel'])]
        if ids(exp) != ids(r_select):
            bad('select-differs-from-reference', f'soupsieve {pos}, reference {[order[id(x)] for x in exp]}')
    else:
        exp2 = [d for d in desc if quiet(comp.match, d)]
        if ids(exp2) != ids(r_select):
            bad('select-differs-from-per-element-match', f'select {pos}, match {[order[id(x)] for x in exp2]}')
    # iselect / select_one / limit
    if ids(list(quiet(comp.iselect, target))) != ids(r_select):
        bad('iselect-differs', '')
    one = quiet(comp.select_one, target)
    if one is not (r_select[0] if r_select else None):
        bad('select_one-differs', f'{one!r}')
    for k in a['limits']:
        want = r_select[:k] if k > 0 else r_select
        if ids(quiet(comp.select, target, limit=k)) != ids(want) or ids(quiet(comp.select, target, k)) != ids(want):
            bad('limit-differs', f'limit={k}')
        if ids(list(quiet(comp.iselect, target, limit=k))) != ids(want):
            bad('iselect-limit-differs', f'limit={k}')
        if ids(quiet(module_call, 'select', text, target, a, ckw, k)) != ids(want):
            bad('module-select-limit-differs', f'limit={k}')
        if ids(quiet(module_call, 'iselect', text, target, a, ckw, k)) != ids(want):
            bad('module-iselect-limit-differs', f'limit={k}')
        if k > 0 and len(r_select) > k:
            info['truncated'] = True
    # filter(tag)
    kids = [c for c in target.contents if isinstance(c, bs4.Tag)]
    f_tag = quiet(comp.filter, target)
    if case['sel'] is not None:
        rctx = R.Ctx(target, ns, custom_ast)
        expf = [c for c in kids if R.match_list(rctx, c, case['sel'])]
        if ids(f_tag) != ids(expf):
            bad('filter-tag-differs-from-reference', f'{len(f_tag)} vs {len(expf)}')
    else:
        if not all(any(x is k for k in kids) for x in f_tag):
            bad('filter-tag-yields-non-child', '')
    # filter(iterable) with mixed Tags and strings, in a permuted order
    items = list(target.contents)
    for j, r in enumerate(a['perm']):
        if len(items) > 1:
            i1, i2 = j % len(items), r % len(items)
            items[i1], items[i2] = items[i2], items[i1]
    f_list = quiet(comp.filter, items)
    if case['sel'] is not None:
        expl = [x for x in items if isinstance(x, bs4.Tag) and R.match_list(R.Ctx(x, ns, custom_ast), x, case['sel'])]
    else:
        expl = [x for x in items if isinstance(x, bs4.Tag) and quiet(comp.match, x)]
    if ids(f_list) != ids(expl):
        bad('filter-iterable-differs', f'{len(f_list)} vs {len(expl)} of {len(items)} items')
    # filter(iterable) over parentless nodes that belong to different trees (each item is its own question)
    if a['perm'] and a['perm'][0] % 3 == 0:
        others = []
        for _ in range(2):
            d2 = trees.materialise(case['tree'])
            tops = [c for c in d2.top().contents if isinstance(c, bs4.Tag)] if isinstance(d2.top(), bs4.BeautifulSoup) else [d2.top()]
            if tops:
                others.append(tops[a['perm'][1] % len(tops)].extract())
        others.append(bs4.BeautifulSoup('', 'html.parser').new_tag('p', attrs={'id': 'i1'}))
        if a['perm'][2] % 2:
            others.reverse()
        try:
            got = quiet(comp.filter, others)
            want = [x for x in others if quiet(comp.match, x)]
            if ids(got) != ids(want):
                bad('filter-iterable-of-detached-roots-differs', f'{[others.index(x) for x in got]} vs per-item match '
                    f'{[others.index(x) for x in want]} over {len(others)} parentless items')
        except Exception as e:  # noqa: BLE001
            bad('filter-iterable-raises-' + type(e).__name__, repr(e)[:200])
    # closest / match
    cl = quiet(comp.closest, target)
    mt = quiet(comp.match, target)
    if is_doc:
        if cl is not None:
            bad('closest-on-document-not-none', repr(cl)[:80])
        if mt is not False:
            bad('match-document-not-false', repr(mt))
    elif case['sel'] is not None:
        rctx = R.Ctx(target, ns, custom_ast)
        cur, expc = target, None
        while cur is not None and R.is_elem(cur):
            if R.match_list(rctx, cur, case['sel']):
                expc = cur
                break
            cur = cur.parent
        if cl is not expc:
            bad('closest-differs-from-reference', f'{cl!r:.60} vs {expc!r:.60}')
        if bool(mt) != R.match_list(rctx, target, case['sel']):
            bad('match-differs-from-reference', repr(mt))
    if isinstance(cl, bs4.BeautifulSoup):
        bad('closest-returns-document', '')
    # module-level == compiled
    for name, cres in (('select', r_select), ('iselect', r_select), ('filter', f_tag)):
        try:
            m = quiet(module_call, name, text, target, a, ckw)
        except Exception as e:  # noqa: BLE001
            bad(f'module-{name}-raises-' + type(e).__name__, repr(e)[:200])
            continue
        if ids(m) != ids(cres):
            bad(f'module-{name}-differs', f'{len(m)} vs {len(cres)}')
    for name, cres in (('select_one', one), ('closest', cl), ('match', mt)):
        try:
            m = quiet(module_call, name, text, target, a, ckw)
        except Exception as e:  # noqa: BLE001
            bad(f'module-{name}-raises-' + type(e).__name__, repr(e)[:200])
            continue
        if (m is not cres) and not (isinstance(m, bool) and m == cres):
            bad(f'module-{name}-differs', f'{m!r:.60} vs {cres!r:.60}')
    try:
        m = quiet(module_call, 'filter', text, items, a, ckw)
        if ids(m) != ids(f_list):
            bad('module-filter-iterable-differs', '')
    except Exception as e:  # noqa: BLE001
        bad('module-filter-iterable-raises-' + type(e).__name__, repr(e)[:200])
    return fails, info


def evaluate(case, doc=None):
    if doc is None:
        doc = trees.materialise(case['tree'])
    if case.get('sel') is not None:
        case = dict(case, text=S.render_list(case['sel']))   # the AST is authoritative (keeps shrinking consistent)
    els = doc.all_elements()
    fails = []
    infos = []
    for t in case['targets']:
        target = doc.top() if t == -1 or not els else els[t % len(els)]
        try:
            f, info = check_target(case, doc, target)
        except Exception as e:  # noqa: BLE001  (an exception escaping any entry point is a finding, not a harness error)
            import traceback
            tb = traceback.extract_tb(e.__traceback__)
            if not any('soupsieve' in fr.filename for fr in tb):
                raise
            entry = next((fr.name for fr in tb if 'soupsieve' in fr.filename and fr.filename.endswith('__init__.py')),
                         next(fr.name for fr in tb if 'soupsieve' in fr.filename))
            f, info = [(f'{entry}-raises-{type(e).__name__}', f'{e!r:.200} [selector {case["text"]!r}, args {case["args"]}]')], {}
        fails.extend(f)
        info['is_doc'] = isinstance(target, bs4.BeautifulSoup)
        infos.append(info)
        sv.purge()
    return fails, infos


def replay(case):
    fails, _ = evaluate(case)
    return fails[0] if fails else None


def shard(ctx):
    col = common.Collector()
    tier = ctx['tier']

    def body(ch):
        case, doc = gen_case(ch, tier)
        fails, infos = evaluate(case, doc)
        col.count(28 * len(case['targets']))
        a = case['args']
        col.classify('modelled' if case['sel'] is not None else 'full-grammar', 'ns:' + a['ns'], 'flags:' + a['flags'],
                     'custom:' + a['custom'], 'positional' if a['positional'] else 'keyword')
        scoped = case['sel'] is not None and any(p['p'] in ('scope', 'amp') for p in S.walk_pseudos(case['sel']))
        if scoped:
            col.classify('uses-scope')
        for info in infos:
            if info.get('n'):
                col.classify('nonempty')
                if info.get('truncated') or not info['is_doc'] or scoped or a['custom'] == 'map' or a['ns'] in (
                        'map', 'default-xhtml'):
                    col.nontrivial_case([case['tree'], case['text'], case['targets'], a],
                                        {'selector': case['text'], 'args': a, 'targets': case['targets'],
                                         'kind': case['tree']['kind'], 'selected': info['n']})
            if info.get('truncated'):
                col.classify('limit-truncates')
            if not info.get('is_doc', True):
                col.classify('element-target')
        for b, d in fails[:3]:
            col.fail(b, case, d)

    ex = common.hyp_run(choose.choices(3072), body, 40000 if tier == 'quick' else 4000000, ctx['hseed'],
                        deadline_ts=ctx['t_end'])
    col.extra['budget_exhausted'] = int(ex)
    return col
