"""C12 - namespace selectors compare namespace URIs through the supplied prefix map."""
from __future__ import annotations

import copy

import bs4
import soupsieve as sv

from engine import choose, common, ref_html, refmatch as R, selast as S, trees  # noqa: F401 (ref_html registers EXT)

ID = 'C12'
BUDGET = {'quick': 50, 'thorough': 900}
META = {
    'rule': 'namespace-aware documents only: XML through lxml-xml with generated declarations (default, prefixed, '
            're-declared on inner elements, xmlns="" un-declaration, one URI under two prefixes, two URIs under one '
            'prefix at different depths), API-built XML with explicit (namespace, prefix) per element and '
            'NamespacedAttribute keys, XHTML, HTML5 through html5lib (svg/math/xlink); prefix maps that agree with, '
            'differ from, collide with or omit the document\'s prefixes, with and without a default entry, with an '
            'empty URI; selector forms ns|E *|E |E E ns|* *|* |* * and [ns|a] [*|a] [|a] [a] (with operators), inside '
            'and outside :not/:is/:has. Oracle: reference matcher that compares URIs read from bs4 (.namespace) '
            'through the map; metamorphic: renaming every prefix in the document (URIs kept) changes no answer. '
            'Non-trivial: the document has >= 2 distinct URIs and the answer differs from the answer of the same '
            'selector with its namespace parts removed; distinct by (recipe, selector, map)',
    'assumptions': ['not generated: attribute names containing ":" in selectors, selecting on xmlns declarations, '
                    'attributes with a prefix but no URI, non-namespace-aware parsers'],
}

URIS = ('urn:a', 'urn:b', trees.NS_XHTML, trees.NS_SVG)
# 'html' is also the prefix soupsieve's internal HTML-only selector lists use: a caller or document binding of it must not leak into them
DOC_PREFIXES = ('p', 'q', 'svg', 'h', 'html', 'dc.terms')
MAP_PREFIXES = ('p', 'q', 'svg', 'x', 'P', 'html', 'dc.terms', '1x')
NAMES = ('a', 'b', 'c')
ATTRS = ('k', 'href', 'lang')


def gen_xml_recipe(ch, kind):
    n = ch.i(1, 9)

    def mk():
        ns = ch.pick((None,) + URIS) if ch.p(0.75) else None
        prefix = None
        if ns is not None and ch.p(0.5):
            prefix = ch.pick(DOC_PREFIXES)
        attrs = []
        used = set()
        for _ in range(ch.i(0, 2)):
            local = ch.pick(ATTRS)
            ans = ch.pick((None, None) + URIS)
            apfx = ch.pick(DOC_PREFIXES) if ans is not None else None
            if ans is not None and kind == 'xml-api' and ch.p(0.2):
                # an attribute key that is in a namespace without carrying a prefix (Beautiful Soup builds such keys
                # when a URI is bound to a prefix and to the default namespace; html5lib does for `xmlns`)
                apfx = ch.pick(('', None))
            if ans is not None and apfx and apfx == prefix and ans != ns:
                continue     # one prefix cannot mean two URIs on the same element
            key = (apfx, local)
            if key in used or (ans is not None and any(u[0] == apfx for u in used if u[0])):
                continue
            used.add(key)
            attrs.append([ans, apfx, local, ch.pick(('v', 'w', 'v w', ''))])
        if ch.p(0.3):
            attrs.append([None, None, 'class', ch.pick(('k', 'm', 'k m'))])
        return {'k': 'e', 'name': ch.pick(NAMES), 'ns': ns, 'prefix': prefix, 'attrs': attrs, 'ch': []}

    elems = [mk() for _ in range(n)]
    for i in range(1, n):
        elems[ch.i(0, i - 1)]['ch'].append(elems[i])
    if ch.p(0.4):
        for e in elems:
            e['ch'] = [x for c in e['ch'] for x in ({'k': 't', 's': '\n'}, c)]
    return {'kind': kind, 'top': [elems[0]], 'detach': None}


def gen_html5_recipe(ch):
    body = []
    for _ in range(ch.i(1, 4)):
        r = ch.i(0, 3)
        if r == 0:
            body.append(trees.E('svg', {}, [trees.E('circle', {'class': ['k']}), trees.E('a', [[None, None, 'xlink:href', 'v']], [trees.T('t')]),
                                            trees.E('foreignObject', {}, [trees.E('p', {'lang': 'v'})])]))
        elif r == 1:
            body.append(trees.E('math', {}, [trees.E('mi', {'href': 'v'}, [trees.T('x')])]))
        else:
            body.append(trees.E(ch.pick(('a', 'p', 'b')), {'href': 'v'} if ch.p(0.5) else {'class': ['k']},
                                [trees.E('a', {}, [])] if ch.p(0.3) else []))
    return {'kind': 'html5lib', 'top': [trees.E('html', {}, [trees.E('body', {}, body)])], 'detach': None}


def xhtml_of(recipe):
    r = copy.deepcopy(recipe)
    r['kind'] = 'lxml-xml'

    def setns(node):
        if node['k'] == 'e':
            if node['ns'] is None and not node['prefix']:
                node['ns'] = trees.NS_XHTML
            for c in node['ch']:
                setns(c)
    root = {'k': 'e', 'name': 'html', 'ns': trees.NS_XHTML, 'prefix': None, 'attrs': [], 'ch': r['top']}
    setns(root)
    r['top'] = [root]
    return r


def gen_map(ch, doc_uris):
    r = ch.i(0, 5)
    if r == 0:
        return None
    m = {}
    pool = list(URIS) + ['', 'urn:none'] + [u for u in doc_uris if u]
    for _ in range(ch.i(0, 3)):
        m[ch.pick(MAP_PREFIXES)] = ch.pick(pool)
    if ch.p(0.35):
        m[''] = ch.pick(pool)
    return m


def ns_form_for(ch, uri, nsmap, allow_miss=True):
    """A namespace prefix form that should (usually) match an element/attribute with this URI."""
    forms = ['*']
    if not uri:
        forms.append('')
    for pfx, u in (nsmap or {}).items():
        if pfx and u == uri:
            forms.append(pfx)
    if nsmap is None or '' not in nsmap or nsmap[''] == (uri or ''):
        forms.append(None)
    if allow_miss and ch.p(0.25):
        return ch.pick([None, '*', '', 'p', 'q', 'x', 'zz'])
    return ch.pick(forms)


def describe(ch, el, nsmap, depth):
    c = {'tag': None, 'ids': [], 'classes': [], 'attrs': [], 'ps': []}
    uri = el.namespace or ''
    r = ch.i(0, 9)
    if r <= 5:
        c['tag'] = {'ns': ns_form_for(ch, uri, nsmap), 'name': el.name if ch.p(0.85) else ch.pick(NAMES)}
    elif r <= 7:
        c['tag'] = {'ns': ns_form_for(ch, uri, nsmap), 'name': '*'}
    for k, v in el.attrs.items():
        kns = getattr(k, 'namespace', None)
        local = getattr(k, 'name', None) if kns is not None else str(k)
        if local is None or ':' in local or str(k).startswith('xmlns') or local == 'class':
            continue
        if ch.p(0.5):
            form = ns_form_for(ch, kns or '', nsmap) if kns is not None else ch.pick((None, '', '*', 'p'))
            if kns is not None and form is None and ch.p(0.7):
                form = '*'
            op = ch.pick((None, None, '=', '~=', '^='))
            val = R.norm_value(v)
            c['attrs'].append({'ns': form, 'name': local if ch.p(0.9) else ch.pick(ATTRS), 'op': op,
                               'val': (val.split(' ')[0] if op else ''), 'flag': None})
    cls = [k for k in R.css_split(R.norm_value(el.attrs.get('class', ''))) if k]
    if cls and ch.p(0.4):
        c['classes'].append(ch.pick(cls))
    if ch.p(0.1):
        c['attrs'].append({'ns': ch.pick((None, '', '*', 'p', 'q')), 'name': ch.pick(ATTRS), 'op': None, 'val': '',
                           'flag': None})
    if depth > 0 and ch.p(0.3):
        c['ps'].append(None)   # placeholder filled by caller
    if ch.p(0.1):
        sibs = R.elem_siblings(el)
        pos = [i for i, x in enumerate(sibs, 1) if x is el][0]
        a_ = ch.i(-2, 3)
        c['ps'].append({'p': ch.pick(('nth-child', 'nth-last-child')) if ch.p(0.8) else 'nth-of-type', 'a': a_,
                        'b': pos - a_ * ch.i(0, 2) if ch.p(0.7) else ch.i(0, 4), 'of': None})
    if ch.p(0.12):
        # an HTML-only pseudo-class next to namespace forms: it swaps in soupsieve's private prefix map while it runs
        st = {'p': ch.pick(('checked', 'disabled', 'required', 'any-link', 'link', 'enabled', 'optional', 'read-only'))}
        c['ps'].append({'p': 'not', 'args': [[{'comb': None, 'c': {'tag': None, 'ids': [], 'classes': [], 'attrs': [], 'ps': [st]}}]]}
                       if ch.p(0.7) else st)
    return c


def gen_selector(ch, doc, nsmap):
    els = doc.all_elements()

    def complex_for(el, depth):
        parts = [{'comb': None, 'c': describe(ch, el, nsmap, depth)}]
        cur = el
        while len(parts) < 3 and ch.p(0.4):
            comb = ch.pick((' ', '>', '+', '~'))
            cands = R.back_candidates(cur, comb)
            if not cands:
                break
            prev = ch.pick(cands)
            parts[0]['comb'] = comb
            parts.insert(0, {'comb': None, 'c': describe(ch, prev, nsmap, depth)})
            cur = prev
        for part in parts:
            ps = part['c']['ps']
            for i, p in enumerate(ps):
                if p is None:
                    kind = ch.pick(('not', 'is', 'has', 'where'))
                    other = ch.pick(els) if ch.p(0.5) else el
                    if kind == 'has':
                        kids = R.elem_descendants(el)
                        tgt = ch.pick(kids) if kids else other
                        ps[i] = {'p': 'has', 'args': [[{'comb': ch.pick((None, '>', ' ')), 'c': describe(ch, tgt, nsmap, 0)}]]}
                    else:
                        ps[i] = {'p': kind, 'args': [complex_for(other, depth - 1)]}
        return parts

    return [complex_for(ch.pick(els), 1) for _ in range(1 if ch.p(0.8) else 2)]


def strip_ns(sel):
    s = copy.deepcopy(sel)
    for c in S.walk_compounds(s):
        if c.get('tag'):
            c['tag']['ns'] = None
        for a in c.get('attrs', []):
            a['ns'] = None
    return s


def rename_prefixes(recipe):
    r = copy.deepcopy(recipe)
    ren = {'p': 'zq', 'q': 'p', 'svg': 'q', 'h': 'svg'}

    def walk(n):
        if n['k'] == 'e':
            if n['prefix']:
                n['prefix'] = ren.get(n['prefix'], n['prefix'])
            for a in n['attrs']:
                if a[1]:
                    a[1] = ren.get(a[1], a[1])
            for c in n['ch']:
                walk(c)
    for n in r['top']:
        walk(n)
    return r


def gen_case(ch, tier):
    flavour = ch.weighted([(4, 'lxml-xml'), (4, 'xml-api'), (1, 'xhtml'), (2, 'html5lib')])
    if flavour == 'html5lib':
        recipe = gen_html5_recipe(ch)
    elif flavour == 'xhtml':
        recipe = xhtml_of(gen_xml_recipe(ch, 'lxml-xml'))
    else:
        recipe = gen_xml_recipe(ch, flavour)
    doc = trees.materialise(recipe)
    els = doc.all_elements()
    if not els:
        recipe = {'kind': 'xml-api', 'top': [trees.E('a', ns='urn:a')], 'detach': None}
        doc = trees.materialise(recipe)
        els = doc.all_elements()
    uris = sorted({e.namespace or '' for e in els})
    nsmap = gen_map(ch, uris)
    sel = gen_selector(ch, doc, nsmap)
    return {'tree': recipe, 'flavour': flavour, 'sel': sel, 'map': nsmap}, doc


def evaluate(case, doc=None):
    if doc is None:
        doc = trees.materialise(case['tree'])
    ctx = R.Ctx(doc.target, case['map'])
    if not ctx.ns_aware:
        raise common.HarnessError('C12 document is not namespace-aware')
    text = S.render_list(case['sel'])
    els = doc.elements()
    fails = []
    exp = [d for d in els if R.match_list(ctx, d, case['sel'])]
    kw = {} if case['map'] is None else {'namespaces': case['map']}
    try:
        got = sv.select(text, doc.target, **kw)
    except Exception as e:  # noqa: BLE001
        return [(f'raises-{type(e).__name__}', f'{text!r} map={case["map"]}: {e!r:.200}')], None
    o = {id(e): i for i, e in enumerate(els)}
    if [id(x) for x in got] != [id(x) for x in exp]:
        extra = [x for x in got if id(x) not in {id(y) for y in exp}]
        kind = 'over-matches' if extra else 'under-matches'
        what = 'attr' if any(a.get('ns') is not None or True for c in S.walk_compounds(case['sel']) for a in c['attrs']) and not any(
            c.get('tag') and c['tag'].get('ns') is not None for c in S.walk_compounds(case['sel'])) else 'tag'
        fails.append((f'ns-{what}-{kind}', f'{text!r} with map {case["map"]} on {str(doc.target)[:400]!r}: soupsieve '
                      f'{[o.get(id(x)) for x in got]} reference {[o.get(id(x)) for x in exp]}'))
    # the same question started from an element, foreign-namespace elements first (what a query learns about the tree
    # must not depend on where it was started)
    starts = [e for e in els if (e.namespace or '') not in ('', trees.NS_XHTML)][:2] + els[:1]
    for st in starts:
        sub = [d for d in st.descendants if isinstance(d, bs4.Tag)]
        want = [d for d in sub if R.match_list(ctx, d, case['sel'])]
        try:
            got_s = sv.select(text, st, **kw)
            got_m = sv.match(text, st, **kw)
        except Exception as e:  # noqa: BLE001
            fails.append((f'raises-{type(e).__name__}', f'{text!r} map={case["map"]} from <{st.name}>: {e!r:.200}'))
            break
        if [id(x) for x in got_s] != [id(x) for x in want] or bool(got_m) != bool(R.match_list(ctx, st, case['sel'])):
            fails.append(('answer-depends-on-start-element',
                          f'{text!r} with map {case["map"]} started from <{st.name}> (namespace {st.namespace!r}) of '
                          f'{str(doc.target)[:300]!r}: select {[o.get(id(x)) for x in got_s]} reference {[o.get(id(x)) for x in want]}; '
                          f'match {got_m} reference {R.match_list(ctx, st, case["sel"])}'))
            break
    # filter() over an iterable asks about every item on its own: parentless elements of this (namespace-aware) tree next
    # to parentless elements built by a namespace-less parser, in both orders, against one match() call per item
    if not fails:
        d2, d3 = trees.materialise(case['tree']), trees.materialise(case['tree'])
        roots = [next((c for c in d.target.contents if isinstance(c, bs4.Tag)), None) if isinstance(d.target, bs4.BeautifulSoup)
                 else d.target for d in (d2, d3)]
        roots = [r.extract() if r.parent is not None else r for r in roots if r is not None]
        names = [e.name.split(':')[-1] for e in els[:3]] or ['a']
        plain = [bs4.BeautifulSoup(f'<{n} id="p{i}" href="u"></{n}>', 'html.parser').find(True).extract() for i, n in enumerate(names[:2])]
        inner = [e for r in roots[:1] for e in r.find_all(True)[:2]]
        items = plain[:1] + roots[:1] + plain[1:] + roots[1:] + inner
        try:
            want_f = [i for i, x in enumerate(items) if sv.match(text, x, **kw)]
            got_f = [[i for i, x in enumerate(items) if any(x is y for y in sv.filter(text, seq, **kw))] for seq in (items, items[::-1])]
        except Exception as e:  # noqa: BLE001
            fails.append((f'raises-{type(e).__name__}', f'filter({text!r}, parentless elements) map={case["map"]}: {e!r:.200}'))
        else:
            if got_f[0] != want_f or got_f[1] != want_f:
                fails.append(('filter-over-parentless-elements-differs-from-match',
                              f'{text!r} with map {case["map"]} over [html.parser <{names[0]}>, root of {str(roots[0])[:200]!r}, ...]: '
                              f'filter keeps items {got_f[0]} (reversed list: {got_f[1]}), match() per item says {want_f}'))
    # metamorphic: document prefixes are never compared
    if case['tree']['kind'] in ('lxml-xml', 'xml-api') and case['flavour'] != 'xhtml':
        doc2 = trees.materialise(rename_prefixes(case['tree']))
        els2 = doc2.elements()
        if len(els2) == len(els):
            try:
                got2 = sv.select(text, doc2.target, **kw)
                p1 = [o.get(id(x)) for x in got]
                o2 = {id(e): i for i, e in enumerate(els2)}
                p2 = [o2.get(id(x)) for x in got2]
                if p1 != p2:
                    fails.append(('document-prefix-renaming-changes-answer', f'{text!r} map={case["map"]}: {p1} vs {p2} '
                                  f'after renaming prefixes in {str(doc.target)[:300]!r}'))
            except Exception as e:  # noqa: BLE001
                fails.append((f'raises-{type(e).__name__}', f'{text!r} (renamed prefixes): {e!r:.200}'))
    info = {'text': text, 'n': len(exp), 'uris': len({e.namespace or '' for e in els})}
    stripped = strip_ns(case['sel'])
    sctx = R.Ctx(doc.target, None)
    info['differs_without_ns'] = [id(d) for d in els if R.match_list(sctx, d, stripped)] != [id(x) for x in exp]
    return fails, info


def replay(case):
    fails, _ = evaluate(case)
    return fails[0] if fails else None


def shard(ctx):
    col = common.Collector()
    tier = ctx['tier']

    def body(ch):
        case, doc = gen_case(ch, tier)
        fails, info = evaluate(case, doc)
        col.count(2)
        col.classify('doc:' + case['flavour'], 'map:' + ('none' if case['map'] is None else 'default' if '' in case['map'] else 'prefixes'))
        if info:
            if info['n']:
                col.classify('nonempty')
            if info['uris'] >= 2 and info['differs_without_ns']:
                col.nontrivial_case([case['tree'], info['text'], case['map']],
                                    {'selector': info['text'], 'map': case['map'], 'doc': case['flavour'],
                                     'markup': trees.markup(case['tree'])[:300], 'selected': info['n']})
        for b, d in fails[:3]:
            col.fail(b, case, d)

    ex = common.hyp_run(choose.choices(3072), body, 60000 if tier == 'quick' else 4000000, ctx['hseed'],
                        deadline_ts=ctx['t_end'])
    col.extra['budget_exhausted'] = int(ex)
    return col


def selftest():
    import bs4
    soup = bs4.BeautifulSoup('<r xmlns="urn:a" xmlns:p="urn:b"><p:x id="1" p:k="v"/><x id="2" k="v"/><y xmlns="" id="3"/></r>', 'xml')
    m = {'n': 'urn:b', '': 'urn:a'}
    cases = [
        ([S.cx(S.compound('x', ns='n'))], ['1']), ([S.cx(S.compound('x'))], ['2']), ([S.cx(S.compound('x', ns='*'))], ['1', '2']),
        ([S.cx(S.compound('*', ns=''))], ['3']), ([S.cx(S.compound('x', ns='zz'))], []),
        ([S.cx(S.compound(None, attrs=[{'ns': 'n', 'name': 'k', 'op': None, 'val': '', 'flag': None}]))], []),
        ([S.cx(S.compound(None, attrs=[{'ns': '*', 'name': 'k', 'op': None, 'val': '', 'flag': None}]))], ['2']),
        ([S.cx(S.compound('*', ns='*', attrs=[{'ns': 'n', 'name': 'k', 'op': None, 'val': '', 'flag': None}]))], ['1']),
        ([S.cx(S.compound('*', ns='*', attrs=[{'ns': None, 'name': 'k', 'op': None, 'val': '', 'flag': None}]))], ['2']),
        ([S.cx(S.compound('*', ns='*', ps=[{'p': 'not', 'args': [S.cx(S.compound(None, attrs=[{'ns': None, 'name': 'k', 'op': None, 'val': '', 'flag': None}]))]}]))],
         [None, '1', '3']),
    ]
    for sel, exp in cases:
        got = [e.get('id') for e in R.select(sel, soup, m)]
        if got != exp:
            raise common.HarnessError(f'namespace reference self-test {S.render_list(sel)}: {got} != {exp}')
