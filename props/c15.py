"""C15 - compiled selectors are immutable values; the pattern cache is transparent."""
from __future__ import annotations

import base64
import contextlib
import copy
import io
import json
import os
import pickle
import subprocess
import sys
import time
import warnings

import hypothesis
import soupsieve as sv
from hypothesis import HealthCheck, Phase, settings, strategies as st
from hypothesis.stateful import RuleBasedStateMachine, initialize, rule, run_state_machine_as_test

from engine import choose, common, fullgrammar as FG, htmldoc, selast as S, trees

ID = 'C15'
BUDGET = {'quick': 50, 'thorough': 900}
META = {
    'rule': '(a) values: compiled selectors over (full-grammar pattern) x namespaces {None, {}, maps, permutations, one '
            'value changed} x custom (same) x flags {0, DEBUG}; every object reachable through public attributes is '
            'attacked with setattr (existing and new names), delattr, item assignment/deletion/update/clear and must '
            'stay == / same hash / same repr; hash works on every part; x == y <=> equal (pattern, namespaces, custom, '
            'flags) over all generated pairs and equal objects have equal hashes; pickle (all protocols), copy, '
            'deepcopy give an equal object with equal hash selecting the same elements; keys also vary in argument type '
            'only (bool vs int flags, str-subclass pattern and map entries); pickles written by another interpreter '
            'process (other string-hash seed) must load to an equal object with equal hash. (b) histories: '
            'RuleBasedStateMachine with rules compile(key from a pool of near-collisions), compile_many(n distinct '
            'patterns, n up to 700 > the cache bound), purge(), compile(compiled), compile(compiled, extra argument); '
            'invariants: the result equals a fresh parse of the same key and selects the same elements, currsize <= '
            'maxsize, purge empties, compile(c) is c, extra arguments raise ValueError. Non-trivial: (a) a pair of keys '
            'differing in exactly one component or only in map ordering; (b) a history with a cache hit after an '
            'eviction or purge; distinct by key pair / history',
    'assumptions': ['cache size is read through functools.lru_cache.cache_info() on the cached compile function; if a '
                    'refactor removes it the sub-check reports "not observable"',
                    'private-name access (_d, object.__setattr__) is not attempted'],
}

NS_SVG = trees.NS_SVG
NS_POOL = [None, {}, {'svg': NS_SVG}, {'svg': 'urn:other'}, {'svg': NS_SVG, 'x': 'urn:x'}, {'x': 'urn:x', 'svg': NS_SVG},
           {'': NS_SVG}, {'SVG': NS_SVG}]
CUSTOM_POOL = [None, {}, {':--x': 'a'}, {':--x': 'b'}, {':--x': 'a', ':--y': 'b'}, {':--y': 'b', ':--x': 'a'},
               {':--X': 'a'}, {':--x': 'a '},
               # same text for :--y, different definition of the :--x it refers to
               {':--x': 'p', ':--y': 'div :--x'}, {':--x': 'li', ':--y': 'div :--x'}, {':--x': 'a', ':--y': ':--x > b'},
               # two spellings of one name (equal after un-escaping), in both insertion orders: whatever compile does with
               # such a map (the documented KeyError), it must do for either order and with or without a cache hit
               {':--x': 'p', ':--\\78': 'div'}, {':--\\78': 'div', ':--x': 'p'},
               # definitions compile() refuses with NotImplementedError (pseudo-element, at-rule): a failed call must leave
               # nothing behind for the calls after it
               {':--x': 'p::first-line'}, {':--x': 'a', ':--y': '@media print'},
               {':--x': 'p', ':--\\58 ': 'div'}, {':--\\58 ': 'div', ':--x': 'p'}]
PATTERNS = ['p', 'p ', 'P', 'a > b', 'a>b', ':is(a, b)', ':is(b, a)', 'svg|circle', '*|circle', 'a:--x', 'a:--y', ':--y',
            ':nth-child(2n+1)', ':nth-child(odd)', '[type="a"]', "[type='a']", '[type=a i]', ':lang(en)', ':lang("en")',
            ':-soup-contains("x")', 'li:has(> a)', 'div.alpha.beta.gamma.delta.epsilon > p.note.warning', '.k.m.K#i1#i2',
            '.beta.alpha.gamma.delta.epsilon',
            # unequal structures whose hashes collide (hash(-1) == hash(-2) in CPython): anything keyed by hash alone confuses them
            ':nth-child(2n-1)', ':nth-child(2n-2)', ':nth-child(-n+3)', ':nth-child(-2n+3)', 'p.a\x00', 'p.a\ufffd', '\x00', '\ufffd']
HASH_TWINS = {':nth-child(2n-1)': ':nth-child(2n-2)', ':nth-child(2n-2)': ':nth-child(2n-1)',
              ':nth-child(-n+3)': ':nth-child(-2n+3)', ':nth-child(-2n+3)': ':nth-child(-n+3)'}
FGCFG = FG.Cfg(ns_forms=True, prefixes=('svg', 'x'), custom=('--x',), max_depth=2)
_doc = [None]


def witness():
    if _doc[0] is None:
        _doc[0] = trees.materialise(htmldoc.WITNESS_RECIPE)
    return _doc[0]


def quiet(fn, *a, **k):
    with contextlib.redirect_stdout(io.StringIO()), warnings.catch_warnings():
        warnings.simplefilter('ignore')
        return fn(*a, **k)


def key_valid(pat, custom):
    need = [n for n in (':--x', ':--y') if n in pat]
    have = {k.lower() for k in (custom or {})}
    return all(n in have for n in need)


class Str(str):
    """A str subclass: equal to the plain string, of another type (argument-type variation)."""


def retype(d):
    return None if d is None else {Str(k): Str(v) for k, v in d.items()}


def norm_key(key):
    pat, ns, custom, flags = key[:4]
    return (pat, None if ns is None else tuple(sorted(ns.items())), None if custom is None else tuple(sorted(custom.items())),
            flags)


def do_compile(key):
    pat, ns, custom, flags = key[:4]
    if len(key) > 4 and key[4]:
        # same key, other argument types: a str subclass for the pattern and the map entries
        pat, ns, custom = Str(pat), retype(ns), retype(custom)
    kw = {}
    if custom is not None:
        kw['custom'] = custom
    return quiet(sv.compile, pat, ns, flags, **kw)


def outcome(key):
    """('ok', compiled) or ('raise', exception type name) for the two documented errors of compile()."""
    try:
        return ('ok', do_compile(key))
    except (KeyError, sv.SelectorSyntaxError, NotImplementedError) as e:
        return ('raise', type(e).__name__)


def same_outcome(a, b):
    if a[0] != b[0]:
        return False
    if a[0] == 'raise':
        return a[1] == b[1]
    return a[1] == b[1] and hash(a[1]) == hash(b[1]) and repr(a[1].selectors) == repr(b[1].selectors)


def cache_info():
    try:
        from soupsieve import css_parser as cp
        return cp._cached_css_compile.cache_info()
    except Exception:  # noqa: BLE001
        return None


def reachable(obj, seen=None, out=None):
    """Objects reachable from a compiled selector through public attributes / containers."""
    seen = set() if seen is None else seen
    out = [] if out is None else out
    if id(obj) in seen or obj is None or isinstance(obj, (str, int, bool, float)):
        return out
    seen.add(id(obj))
    out.append(obj)
    slots = getattr(type(obj), '__slots__', None)
    if slots and hasattr(obj, '_hash'):
        for s in slots:
            if not s.startswith('_'):
                reachable(getattr(obj, s), seen, out)
    elif isinstance(obj, tuple):
        for x in obj:
            reachable(x, seen, out)
    elif hasattr(obj, 'items') and hasattr(obj, '__getitem__') and not isinstance(obj, dict):
        for k, v in obj.items():
            reachable(v, seen, out)
    return out


def attack(obj):
    """Try to mutate obj through its public interface. Returns list of (what, outcome) for mutations that did not raise."""
    leaks = []
    slots = [s for s in getattr(type(obj), '__slots__', ()) if not s.startswith('_')]
    is_imm = bool(slots) or hasattr(obj, '_hash') and not hasattr(obj, 'items')
    if is_imm:
        for s in slots:
            for what, fn in ((f'setattr {s}', lambda s=s: setattr(obj, s, None)), (f'delattr {s}', lambda s=s: delattr(obj, s))):
                try:
                    fn()
                    leaks.append(what)
                except (AttributeError, TypeError):
                    pass
        try:
            obj.brand_new_attribute = 1
            leaks.append('setattr new name')
        except (AttributeError, TypeError):
            pass
    if hasattr(obj, 'items') and hasattr(obj, '__getitem__') and not isinstance(obj, dict):
        keys = list(obj)
        ops = [('setitem', lambda: obj.__setitem__('zz', 'v')), ('delitem', lambda: obj.__delitem__(keys[0] if keys else 'zz')),
               ('update', lambda: obj.update({'zz': 'v'})), ('clear', lambda: obj.clear()), ('pop', lambda: obj.pop(keys[0] if keys else 'zz')),
               ('setdefault', lambda: obj.setdefault('zz', 'v')), ('item assignment', lambda: exec('o["zz"] = "v"', {'o': obj})),
               ('item deletion', lambda: exec('del o[k]', {'o': obj, 'k': keys[0] if keys else 'zz'}))]
        for what, fn in ops:
            try:
                fn()
                leaks.append('mapping ' + what)
            except (AttributeError, TypeError, KeyError):
                pass
    if isinstance(obj, tuple):
        try:
            obj[0:0] = ()
            leaks.append('tuple slice assignment')
        except TypeError:
            pass
    return leaks


def check_value(key, other_key):
    fails = []
    same = norm_key(key) == norm_key(other_key)
    try:
        sv.purge()
        o1 = outcome(key)
        o2_after = outcome(other_key)          # possibly a cache hit on the entry made for `key`
        sv.purge()
        o2 = outcome(other_key)                # certainly a fresh parse
    except Exception as e:  # noqa: BLE001
        raise common.HarnessError(f'C15 key does not compile: {key!r} / {other_key!r}: {e!r}')
    if not same_outcome(o2_after, o2):
        fails.append(('compile-after-other-key-differs-from-fresh-parse',
                      f'compile{other_key!r} gives {o2_after[0]} {o2_after[1] if o2_after[0] == "raise" else ""} right after '
                      f'compile{key!r}, but {o2[0]} {o2[1] if o2[0] == "raise" else ""} on an empty cache'))
    if same and o1[0] != o2[0]:
        fails.append(('equal-keys-different-outcome', f'{key!r}: {o1[0]} {o1[1] if o1[0] == "raise" else ""}; {other_key!r}: {o2[0]} {o2[1] if o2[0] == "raise" else ""}'))
    if o1[0] == 'raise' or o2[0] == 'raise':
        return fails, same
    c, d = o1[1], o2[1]
    ctx = f'key {key!r}'
    # equality relation
    if (c == d) != same or (c != d) == same:
        fails.append(('equality-relation', f'{key!r} vs {other_key!r}: == is {c == d}, != is {c != d}, keys equal is {same}'))
    if c == d and hash(c) != hash(d):
        fails.append(('equal-objects-different-hash', f'{key!r} vs {other_key!r}'))
    # hashable everywhere
    parts = reachable(c)
    for p in parts:
        try:
            hash(p)
        except Exception as e:  # noqa: BLE001
            fails.append(('part-not-hashable', f'{type(p).__name__} in {ctx}: {e!r:.100}'))
            break
    # mutation attempts
    before = (repr(c), hash(c))
    sv.purge()
    fresh_before = do_compile(key)
    for p in parts:
        leaks = attack(p)
        hard = [x for x in leaks if not x.startswith('setattr new name') or hasattr(type(p), '__slots__')]
        if hard:
            fails.append(('mutation-accepted', f'{type(p).__name__}: {hard[:3]} did not raise in {ctx}'))
            break
    sv.purge()
    fresh = do_compile(key)
    try:
        ok = (repr(c), hash(c)) == before and c == fresh and fresh == c and hash(c) == hash(fresh)
    except Exception as e:  # noqa: BLE001
        ok = False
        fails.append(('object-corrupted-by-mutation-attempt', f'{ctx}: {e!r:.150}'))
    if not ok and not any(f[0].startswith('object-corrupted') for f in fails):
        fails.append(('object-changed-by-mutation-attempt', ctx))
    if fresh_before != fresh:
        fails.append(('fresh-parses-differ', ctx))
    # the caller's own dicts are not part of the value: mutate them after compile
    pat, ns, custom, flags = key[:4]
    ns_arg = dict(ns) if ns is not None else None
    cu_arg = dict(custom) if custom is not None else None
    sv.purge()
    c2 = do_compile((pat, ns_arg, cu_arg, flags))
    snap = (repr(c2), hash(c2))
    for d in (ns_arg, cu_arg):
        if d is not None:
            for k2 in list(d):
                d[k2] = d[k2] + 'x'
            d['zz'] = 'urn:zz'
            d.pop(next(iter(d)))
    try:
        if (repr(c2), hash(c2)) != snap or c2 != fresh or hash(c2) != hash(fresh):
            fails.append(('compiled-object-aliases-callers-dict', f'{ctx}: mutating the dict passed as namespaces/custom after compile changed the compiled selector'))
    except Exception as e:  # noqa: BLE001
        fails.append(('compiled-object-aliases-callers-dict', f'{ctx}: {e!r:.150}'))
    # ... and compiling again with the very same dict objects (now holding other content) must see the new content
    try:
        again = do_compile((pat, ns_arg, cu_arg if cu_arg is None or key_valid(pat, cu_arg) else None, flags)) \
            if (cu_arg is None or key_valid(pat, cu_arg)) else None
        if again is not None:
            want = do_compile((pat, dict(ns_arg) if ns_arg is not None else None,
                               dict(cu_arg) if cu_arg is not None else None, flags))
            if again != want or hash(again) != hash(want) or (ns_arg is not None and dict(again.namespaces) != ns_arg):
                fails.append(('compile-reuses-stale-wrapper-of-mutated-dict',
                              f'{ctx}: compile() with a dict object that was changed in place since the previous call'))
    except sv.SelectorSyntaxError:
        pass
    sv.purge()
    # copies
    doc = witness()
    try:
        base = [id(x) for x in c.select(doc.target)]
    except Exception as e:  # noqa: BLE001
        base = None
        fails.append(('select-raises-after-attack', f'{ctx}: {e!r:.150}'))
    clones = [('copy', lambda: copy.copy(c)), ('deepcopy', lambda: copy.deepcopy(c))]
    for proto in range(pickle.HIGHEST_PROTOCOL + 1):
        clones.append((f'pickle{proto}', lambda proto=proto: pickle.loads(pickle.dumps(c, proto))))
    for name, mk in clones:
        try:
            k2 = mk()
        except Exception as e:  # noqa: BLE001
            fails.append((f'{name.rstrip("0123456789")}-raises', f'{ctx}: {e!r:.150}'))
            continue
        if not (k2 == c and c == k2 and hash(k2) == hash(c) and not (k2 != c)):
            fails.append((f'{name.rstrip("0123456789")}-not-equal', ctx))
        elif base is not None and [id(x) for x in k2.select(doc.target)] != base:
            fails.append((f'{name.rstrip("0123456789")}-selects-differently', ctx))
    # compile(compiled)
    if sv.compile(c) is not c:
        fails.append(('compile-of-compiled-not-identity', ctx))
    for kw in ({'namespaces': {}}, {'flags': sv.DEBUG}, {'custom': {}}, {'namespaces': {'a': 'b'}}, {'custom': {':--q': 'a'}}):
        try:
            sv.compile(c, **kw)
            fails.append(('compile-of-compiled-accepts-extra-argument', f'{kw} {ctx}'))
        except ValueError:
            pass
        except Exception as e:  # noqa: BLE001
            fails.append(('compile-of-compiled-wrong-exception', f'{kw}: {e!r:.100}'))
    return fails, same


def gen_key(ch, rich):
    pat = S.render_list(FG.gen_list(ch, FGCFG, max_items=2)) if rich and ch.p(0.5) else ch.pick(PATTERNS)
    custom = ch.pick(CUSTOM_POOL)
    if not key_valid(pat, custom):
        custom = ch.pick([c for c in CUSTOM_POOL if key_valid(pat, c)])
    return [pat, ch.pick(NS_POOL), custom, ch.pick((0, 0, 0, sv.DEBUG, False, True))]


def perturb_key(ch, key):
    k = list(key)
    r = ch.i(0, 6)
    if r == 0:
        return k
    if r == 6:
        # the same key with other argument types: bool <-> int flags, str-subclass pattern and map entries
        if ch.p(0.5):
            k[3] = bool(k[3]) if type(k[3]) is int else int(k[3])
        else:
            k = k[:4] + [True]
        return k
    if r == 1:
        k[0] = HASH_TWINS[k[0]] if k[0] in HASH_TWINS and ch.p(0.7) else ch.pick(PATTERNS)
    elif r == 2:
        k[1] = ch.pick(NS_POOL)
    elif r == 3:
        k[2] = ch.pick(CUSTOM_POOL)
    elif r == 4:
        k[3] = ch.pick((sv.DEBUG, True)) if not k[3] else ch.pick((0, False))
    else:
        # same maps, other insertion order
        if k[1]:
            k[1] = dict(reversed(list(k[1].items())))
        if k[2]:
            k[2] = dict(reversed(list(k[2].items())))
    if not key_valid(k[0], k[2]):
        k[2] = next(c for c in CUSTOM_POOL if key_valid(k[0], c))
    return k


def replay(case):
    if 'history' in case:
        fails = run_history(case['history'])
    elif 'foreign' in case:
        fails = check_foreign(case['foreign'], case.get('hashseed_n') or 1)
    else:
        fails, _ = check_value(tuple(case['key']), tuple(case['other']))
    return fails[0] if fails else None


# ------------------------------------------------------------------ (b) histories

def fresh_reference(key):
    """The outcome of a parse that cannot come from the cache: purge first (only used before a history starts)."""
    sv.purge()
    return outcome(key)


def step(op, state, fails):
    """Apply one history operation to the real cache and check the invariants."""
    kind = op['op']
    ci0 = cache_info()
    if kind == 'compile':
        key = tuple(op['key'])
        was_cached = norm_key(key) in state['cached']
        got = outcome(key)
        want = op.get('_ref')
        if want is not None:
            if not same_outcome(got, want):
                fails.append(('cached-compile-differs-from-fresh-parse',
                              f'{key!r} after {state["n"]} operations: {got[0]} {got[1] if got[0] == "raise" else ""}, '
                              f'a fresh parse gives {want[0]} {want[1] if want[0] == "raise" else ""}'))
            elif got[0] == 'ok':
                doc = witness()
                if [id(x) for x in got[1].select(doc.target)] != [id(x) for x in want[1].select(doc.target)]:
                    fails.append(('cached-compile-selects-differently', f'{key!r}'))
        if got[0] == 'ok' and sv.compile(got[1]) is not got[1]:
            fails.append(('compile-of-compiled-not-identity', repr(key)))
        state['cached'].add(norm_key(key))
        if was_cached and (state['evictions'] or state['purges']):
            state['hit_after_eviction'] = True
    elif kind == 'many':
        n, base = op['n'], op['base']
        for i in range(n):
            pat = f'.c{base + i}'
            obj = sv.compile(pat)
            if obj.pattern != pat or obj.selectors[0].classes != (f'c{base + i}',):
                fails.append(('compile-many-wrong-object', pat))
                break
        ci = cache_info()
        if ci is not None and n >= ci.maxsize:
            state['evictions'] += 1
            state['cached'] = set()
    elif kind == 'purge':
        sv.purge()
        state['purges'] += 1
        state['cached'] = set()
        ci = cache_info()
        if ci is not None and ci.currsize != 0:
            fails.append(('purge-does-not-empty-cache', f'currsize {ci.currsize}'))
    elif kind == 'compile-extra':
        got = outcome(tuple(op['key']))
        if got[0] == 'raise':
            state['n'] += 1
            return
        obj = got[1]
        try:
            sv.compile(obj, **{op['arg']: ({} if op['arg'] != 'flags' else sv.DEBUG)})
            fails.append(('compile-of-compiled-accepts-extra-argument', op['arg']))
        except ValueError:
            pass
    ci = cache_info()
    if ci is not None:
        if ci.currsize > ci.maxsize:
            fails.append(('cache-exceeds-bound', f'{ci.currsize} > {ci.maxsize}'))
    else:
        state['unobservable'] = True
    state['n'] += 1
    del ci0


def run_history(history):
    # references first (fresh parses), then a clean cache, then the history
    refs = {}
    for op in history:
        if op['op'] in ('compile', 'compile-extra'):
            k = tuple(op['key'])
            if norm_key(k) not in refs:
                refs[norm_key(k)] = fresh_reference(k)
    sv.purge()
    state = {'refs': {}, 'cached': set(), 'evictions': 0, 'purges': 0, 'n': 0}
    fails = []
    for op in history:
        o = dict(op)
        if op['op'] == 'compile':
            o['_ref'] = refs[norm_key(tuple(op['key']))]
        step(o, state, fails)
        if fails:
            break
    return fails


def make_machine(col):
    pool_keys = []
    for pat in PATTERNS[:13]:
        for ns in NS_POOL[:6]:
            for cu in CUSTOM_POOL[:6]:
                if key_valid(pat, cu):
                    pool_keys.append([pat, ns, cu, 0])
    pool_keys = pool_keys[::7] + [[p, None, None, sv.DEBUG] for p in PATTERNS[:4]]
    pool_keys += [[p, None, cu, 0] for p in (':--y', 'a:--y', 'a:--x') for cu in CUSTOM_POOL[8:] if key_valid(p, cu)]
    pool_keys += [[p, None, None, 0] for p in ('p.a\x00', 'p.a\ufffd')]

    class Machine(RuleBasedStateMachine):
        @initialize()
        def setup(self):
            self.refs = {}
            for k in pool_keys:
                self.refs[norm_key(tuple(k))] = fresh_reference(tuple(k))
            sv.purge()
            self.state = {'refs': {}, 'cached': set(), 'evictions': 0, 'purges': 0, 'n': 0}
            self.history = []
            self.base = 0

        def _do(self, op):
            self.history.append(op)
            fails = []
            o = dict(op)
            if op['op'] == 'compile':
                o['_ref'] = self.refs[norm_key(tuple(op['key']))]
            step(o, self.state, fails)
            col.count()
            col.classify('op:' + op['op'])
            for b, d in fails[:2]:
                col.fail(b, {'history': list(self.history)}, d)

        @rule(i=st.integers(0, len(pool_keys) - 1))
        def compile_key(self, i):
            self._do({'op': 'compile', 'key': pool_keys[i]})

        @rule(n=st.sampled_from([1, 5, 50, 499, 500, 501, 700]))
        def compile_many(self, n):
            self._do({'op': 'many', 'n': n, 'base': self.base})
            self.base += n

        @rule()
        def purge(self):
            self._do({'op': 'purge'})

        @rule(i=st.integers(0, len(pool_keys) - 1), arg=st.sampled_from(['namespaces', 'flags', 'custom']))
        def compile_extra(self, i, arg):
            self._do({'op': 'compile-extra', 'key': pool_keys[i], 'arg': arg})

        def teardown(self):
            if getattr(self, 'state', None) and self.state.get('hit_after_eviction'):
                col.nontrivial_case(self.history, {'history': self.history[:10], 'steps': len(self.history)})
            if getattr(self, 'state', None) and self.state.get('unobservable'):
                col.classify('cache-size-not-observable')
    return Machine


def run_foreign_pickles(col, ctx, n):
    """Pickles written by another interpreter process (its own string-hash seed) must load to equal objects with equal
    hashes that select the same elements - persistence and inter-process transport are what pickling is for."""
    keys = []

    def body(c):
        if len(keys) < n:
            keys.append(gen_key(c, True))
    common.hyp_run(choose.choices(1024), body, n, ctx['hseed'] + 77, deadline_ts=ctx['t_end'])
    if not keys:
        return
    env = dict(os.environ, PYTHONHASHSEED=str(1 + ctx['shard'] + 17 * (ctx['hseed'] % 1000)), VERIF_REPO=common.REPO,
               PYTHONDONTWRITEBYTECODE='1')
    worker = os.path.join(common.VERIF, 'fuzz', 'c15_pickler.py')
    p = subprocess.run([sys.executable, worker], input=json.dumps(keys), env=env, capture_output=True, text=True, timeout=300)
    if p.returncode != 0:
        raise common.HarnessError(f'C15 pickler failed: {p.stderr[-400:]}')
    blobs = json.loads(p.stdout)
    doc = witness()
    for key, b in zip(keys, blobs):
        if b is None:
            continue
        col.count()
        col.classify('foreign-pickle')
        case = {'foreign': key, 'hashseed_n': int(env['PYTHONHASHSEED'])}
        try:
            u = pickle.loads(base64.b64decode(b))
        except Exception as e:  # noqa: BLE001
            col.fail('foreign-pickle-does-not-load', case, f'{key!r}: {e!r:.150}')
            continue
        sv.purge()
        here = outcome(tuple(key))
        if here[0] != 'ok':
            col.fail('foreign-process-compiles-what-this-one-rejects', case, repr(key))
            continue
        c = here[1]
        if key[1] or key[2]:
            col.nontrivial_case(['foreign', key], {'key': key, 'pickled_under_hashseed': env['PYTHONHASHSEED']})
        if not (u == c and c == u and not (u != c)):
            col.fail('foreign-pickle-not-equal', case, f'{key!r}: a pickle written by another process is != the same selector compiled here')
        elif hash(u) != hash(c):
            col.fail('foreign-pickle-equal-but-different-hash', case, f'{key!r}: unpickled == compiled here, but their hashes differ (pickled under PYTHONHASHSEED={env["PYTHONHASHSEED"]})')
        elif [id(x) for x in quiet(u.select, doc.target)] != [id(x) for x in quiet(c.select, doc.target)]:
            col.fail('foreign-pickle-selects-differently', case, repr(key))


def check_foreign(key, hashseed):
    env = dict(os.environ, PYTHONHASHSEED=str(hashseed), VERIF_REPO=common.REPO, PYTHONDONTWRITEBYTECODE='1')
    worker = os.path.join(common.VERIF, 'fuzz', 'c15_pickler.py')
    p = subprocess.run([sys.executable, worker], input=json.dumps([key]), env=env, capture_output=True, text=True, timeout=300)
    if p.returncode != 0:
        raise common.HarnessError(f'C15 pickler failed: {p.stderr[-400:]}')
    u = pickle.loads(base64.b64decode(json.loads(p.stdout)[0]))
    sv.purge()
    c = do_compile(tuple(key))
    if not (u == c and c == u and not (u != c)):
        return [('foreign-pickle-not-equal', repr(key))]
    if hash(u) != hash(c):
        return [('foreign-pickle-equal-but-different-hash', repr(key))]
    return []


def shard(ctx):
    col = common.Collector()
    tier = ctx['tier']
    t_val_end = time.time() + ctx['budget_s'] * 0.5

    def body(ch):
        key = gen_key(ch, True)
        other = perturb_key(ch, key)
        fails, same = check_value(tuple(key), tuple(other))
        col.count()
        diff = sum(1 for a, b in zip(norm_key(tuple(key)), norm_key(tuple(other))) if a != b)
        col.classify(f'pair-differs-in-{diff}-components')
        reordered = same and (list((key[1] or {}).items()) != list((other[1] or {}).items()) or
                              list((key[2] or {}).items()) != list((other[2] or {}).items()))
        if diff == 1 or reordered:
            col.nontrivial_case([key, other], {'key': key, 'other': other, 'equal': same})
        if reordered:
            col.classify('same-maps-other-insertion-order')
        if same and (type(key[3]) is not type(other[3]) or len(other) > 4):
            col.classify('same-key-other-argument-types')
            col.nontrivial_case([key, other], {'key': key, 'other': other, 'equal': same})
        for b, d in fails[:2]:
            col.fail(b, {'key': key, 'other': other}, d)

    ex = common.hyp_run(choose.choices(2048), body, 20000 if tier == 'quick' else 2000000, ctx['hseed'],
                        deadline_ts=t_val_end)
    col.extra['values_budget_exhausted'] = int(ex)
    run_foreign_pickles(col, ctx, 60 if tier == 'quick' else 600)
    Machine = make_machine(col)
    sett = settings(max_examples=10, stateful_step_count=40, deadline=None, database=None, phases=[Phase.generate],
                    suppress_health_check=list(HealthCheck), report_multiple_bugs=False, print_blob=False)
    for b in range(10 if tier == 'quick' else 3000):
        if time.time() > ctx['t_end']:
            col.extra['budget_exhausted'] = 1
            break
        run_state_machine_as_test(hypothesis.seed(ctx['hseed'] * 10007 + b)(Machine), settings=sett)
    return col
