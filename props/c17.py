"""C17 - HTML state pseudo-classes follow their definitions and partition laws."""
from __future__ import annotations

import bs4
import soupsieve as sv

from engine import choose, common, htmldoc, ref_html as H, refmatch as R, trees

ID = 'C17'
BUDGET = {'quick': 50, 'thorough': 900}
META = {
    'rule': 'HTML form documents (nested forms/fieldsets/legends, controls of every type incl. case variants, radio '
            'groups shared across forms / outside forms / across iframes, bidi text, svg islands, iframes with element '
            'content) under html.parser, lxml, html5lib and API-built trees. Oracle 1 (laws over soupsieve\'s own '
            'answers): :enabled/:disabled partition the form controls; :required/:optional partition input, select, '
            'textarea; :read-write/:read-only partition the HTML elements; :in-range/:out-of-range are disjoint and cover '
            'the range inputs with a valid bound; :link = :any-link; :checked subset of :default; :dir(ltr)/:dir(rtl) '
            'partition the HTML elements of a rooted document. Oracle 2: reference definitions of each pseudo-class on '
            'the bs4 tree. Oracle 3: iframe isolation (content of an iframe answers as the same content parsed as a '
            'stand-alone document). Non-trivial: both sides of some partition are non-empty and a definition is decided '
            'by context (fieldset/legend, second form, radio group, iframe); distinct by recipe',
    'assumptions': ['form-in-form trees are excluded from the :default/:indeterminate definition oracle (the suite pins a '
                    'browser-imitating bail-out); the laws are still checked there',
                    'bdi / text-input direction and dir=auto without a strong character are checked through the partition law only; dir=auto with a strong character in HTML-only subtrees has a definition check'],
}

PSEUDOS = tuple(H.DEFS)


def sel(text, target):
    return sv.select(text, target)


def ids(lst):
    return {id(x) for x in lst}


def evaluate(case):
    doc = trees.materialise(case['tree'])
    ctx = R.Ctx(doc.target)
    els = doc.elements()
    order = {id(e): i for i, e in enumerate(els)}
    fails = []
    info = {'context': set()}

    def pos(s):
        return sorted(order[i] for i in s if i in order)

    try:
        S_ = {n: ids(sel(':' + n, doc.target)) for n in PSEUDOS}
        ltr, rtl = ids(sel(':dir(ltr)', doc.target)), ids(sel(':dir(rtl)', doc.target))
    except Exception as e:  # noqa: BLE001
        return [('raises-' + type(e).__name__, repr(e)[:300])], info
    # elements whose range state is changed by C18's open finding (week 53) are judged there, not here
    w53 = ids(e for e in els if H.range_affected_by_week53(ctx, e))
    if w53:
        info['week53_excluded'] = len(w53)
        for n in ('in-range', 'out-of-range'):
            S_[n] = S_[n] - w53
    html_els = [e for e in els if ctx.is_html_el(e)]
    controls = ids(e for e in els if H.is_form_control(ctx, e))
    irs = ids(e for e in els if H.name_of(ctx, e) in ('input', 'select', 'textarea'))
    mk = trees.markup(case['tree'])[:500] if case['tree']['kind'] not in trees.API_KINDS else str(doc.target)[:500]

    def law(name, cond, detail):
        if not cond:
            fails.append(('law-' + name, f'{detail} in {case["tree"]["kind"]} document {mk!r}'))

    law('enabled-disabled-disjoint', not (S_['enabled'] & S_['disabled']), f'both: {pos(S_["enabled"] & S_["disabled"])}')
    law('enabled-disabled-cover-controls', (S_['enabled'] | S_['disabled']) == controls,
        f'union {pos(S_["enabled"] | S_["disabled"])} vs form controls {pos(controls)}')
    law('required-optional-partition', not (S_['required'] & S_['optional']) and (S_['required'] | S_['optional']) == irs,
        f'required {pos(S_["required"])} optional {pos(S_["optional"])} vs input/select/textarea {pos(irs)}')
    law('read-write-read-only-partition', not (S_['read-write'] & S_['read-only']) and
        (S_['read-write'] | S_['read-only']) == ids(html_els),
        f'rw {pos(S_["read-write"])} ro {pos(S_["read-only"])} html elements {len(html_els)}')
    ranged = ids(e for e in els if H.range_state(ctx, e) != 'neither') - w53
    law('in-out-of-range', not (S_['in-range'] & S_['out-of-range']) and (S_['in-range'] | S_['out-of-range']) == ranged,
        f'in {pos(S_["in-range"])} out {pos(S_["out-of-range"])} range inputs with a valid bound {pos(ranged)}')
    law('link-equals-any-link', S_['link'] == S_['any-link'], '')
    law('checked-subset-of-default', S_['checked'] <= S_['default'], f'{pos(S_["checked"] - S_["default"])}')
    single_root = sum(1 for c in doc.top().contents if isinstance(c, bs4.Tag)) == 1 and isinstance(doc.top(), bs4.BeautifulSoup)
    if single_root:
        in_foreign = set()
        for e in html_els:
            if any(not ctx.is_html_el(a) for a in H.doc_ancestors(ctx, e)):
                in_foreign.add(id(e))
        want = ids(html_els) - in_foreign
        law('dir-partition', not (ltr & rtl) and ((ltr | rtl) - in_foreign) == want,
            f'ltr&rtl {pos(ltr & rtl)}; neither {pos(want - (ltr | rtl))}')
    # definitions
    nested = H.has_nested_form(ctx, doc.top())
    for n in PSEUDOS:
        if nested and n in ('default', 'indeterminate'):
            continue
        exp = ids(e for e in els if H.DEFS[n](ctx, e))
        if n in ('in-range', 'out-of-range'):
            exp -= w53
        if exp != S_[n]:
            bad = [e for e in els if (id(e) in exp) != (id(e) in S_[n])][0]
            fails.append((f'definition-{n}', f':{n} soupsieve {pos(S_[n])} reference {pos(exp)}; first differing element '
                          f'{str(bad)[:120]!r} in {case["tree"]["kind"]} document {mk!r}'))
    for e in html_els:
        d = H.inherited_dir(ctx, e)
        if d and ((id(e) in ltr) != (d == 'ltr') or (id(e) in rtl) != (d == 'rtl')):
            fails.append(('definition-dir-inheritance', f'{str(e)[:100]!r} should be {d} (explicit/inherited dir) in {mk!r}'))
            break
    for e in html_els:
        d = H.auto_dir(ctx, e)
        if d and ((id(e) in ltr) != (d == 'ltr') or (id(e) in rtl) != (d == 'rtl')):
            fails.append(('definition-dir-auto', f'{str(e)[:140]!r} (dir=auto) should be {d} by its first strong character in {mk!r}'))
            break
    # iframe isolation
    if case['tree']['kind'] in ('html.parser', 'html-api'):
        inners = []

        def find(node):
            if node['k'] == 'e':
                if node['name'] == 'iframe':
                    kids = [c for c in node['ch'] if c['k'] == 'e']
                    if len(kids) == 1 and kids[0]['name'] == 'html' and len(node['ch']) == 1:
                        inners.append(kids[0])
                for c in node['ch']:
                    find(c)
        for n in case['tree']['top']:
            find(n)
        iframes = [e for e in els if R.is_iframe(ctx, e) and len([c for c in e.contents if isinstance(c, bs4.Tag)]) == 1 and
                   len(e.contents) == 1 and e.contents[0].name == 'html']
        if len(inners) == len(iframes):
            for inner_recipe, iframe_el in zip(inners, iframes):
                alone = trees.materialise({'kind': case['tree']['kind'], 'top': [inner_recipe], 'detach': None})
                a_els = alone.elements()
                i_els = R.elem_descendants(iframe_el)
                if len(a_els) != len(i_els):
                    continue
                info['context'].add('iframe-content')
                for n in PSEUDOS + ('dir(ltr)', 'dir(rtl)'):
                    if w53 and n in ('in-range', 'out-of-range'):
                        continue
                    inside = [k for k, e in enumerate(i_els) if id(e) in (S_[n] if n in S_ else (ltr if n == 'dir(ltr)' else rtl))]
                    a_sel = ids(sel(':' + n, alone.target))
                    outside = [k for k, e in enumerate(a_els) if id(e) in a_sel]
                    if inside != outside:
                        fails.append((f'iframe-isolation-{n.split("(")[0]}', f':{n} inside the iframe selects positions {inside}, the same '
                                      f'content as a stand-alone document {outside}; document {mk!r}'))
                        break
    # context classification
    for e in els:
        n = H.name_of(ctx, e)
        if H.disabled(ctx, e) and H.attr(ctx, e, 'disabled') is None:
            info['context'].add('disabled-by-ancestor')
        if n == 'legend':
            info['context'].add('legend')
        if n == 'input' and H.itype(ctx, e) == 'radio' and H.attr(ctx, e, 'name'):
            info['context'].add('radio-group')
    if sum(1 for e in els if H.name_of(ctx, e) == 'form') >= 2:
        info['context'].add('two-forms')
    if nested:
        info['context'].add('nested-forms(laws only)')
    info['both_sides'] = bool(S_['enabled'] and S_['disabled']) or bool(S_['required'] and S_['optional']) or bool(
        S_['in-range'] and S_['out-of-range']) or bool(ltr and rtl)
    return fails, info


def replay(case):
    fails, _ = evaluate(case)
    return fails[0] if fails else None


def shard(ctx):
    col = common.Collector()
    tier = ctx['tier']

    def body(ch):
        recipe, flavour = htmldoc.gen_html_doc(ch, kinds=htmldoc.HTML_KINDS, depth=3 if tier == 'quick' else 4,
                                               nested_forms=None, iframe_rooted=True, memo_rich=True)
        if flavour in ('lxml', 'html5lib') and ch.p(0.3):
            recipe, flavour = htmldoc.gen_html_doc(ch, kinds=(flavour,), depth=3, nested_forms=True, iframe_rooted=True)
        case = {'tree': recipe}
        fails, info = evaluate(case)
        col.count(30)
        col.classify('doc:' + flavour)
        for c in info['context']:
            col.classify('context:' + c)
        if info.get('week53_excluded'):
            col.exclude('range input affected by the open C18 week-53 finding', info['week53_excluded'])
        if info.get('both_sides') and info['context'] - {'nested-forms(laws only)'}:
            col.nontrivial_case(recipe, {'doc': flavour, 'context': sorted(info['context']),
                                         'markup': trees.markup(recipe)[:400]})
        for b, d in fails[:3]:
            col.fail(b, case, d)

    ex = common.hyp_run(choose.choices(4096), body, 60000 if tier == 'quick' else 4000000, ctx['hseed'],
                        deadline_ts=ctx['t_end'])
    col.extra['budget_exhausted'] = int(ex)
    return col


def selftest():
    mk = ('<html><body><form id="f"><fieldset disabled><legend><input id="a"></legend><legend><input id="b"></legend>'
          '<input id="c"><select id="s"><optgroup disabled><option id="o">x</option></optgroup></select></fieldset>'
          '<input type="radio" name="g" id="r1"><input type="radio" name="g" id="r2" checked>'
          '<input type="radio" name="h" id="r3"><button type="submit" id="s1">x</button><input type="Submit" id="s2">'
          '<progress id="p"></progress><input type="checkbox" indeterminate id="cb"></form>'
          '<form><input type="radio" name="g" id="r4"><input type="submit" id="s3"></form></body></html>')
    soup = bs4.BeautifulSoup(mk, 'html.parser')
    ctx = R.Ctx(soup)

    def got(fn):
        return [e.get('id') for e in soup.find_all(True) if e.get('id') and fn(ctx, e)]
    exp = {
        'disabled': (H.disabled, ['b', 'c', 's', 'o']),
        'default': (H.default, ['r2', 's1', 's3']),
        'indeterminate': (H.indeterminate, ['r3', 'p', 'cb', 'r4']),
        'checked': (H.checked, ['r2']),
    }
    for k, (fn, want) in exp.items():
        if got(fn) != want:
            raise common.HarnessError(f'HTML state reference self-test {k}: {got(fn)} != {want}')
