#!/usr/bin/env python3
"""Re-confirm every seeded change against /repo HEAD and re-run the checks recorded for it.

For each seeded/<name>/: apply patch.diff to a scratch worktree of /repo HEAD, run the author's demo in both states, run
the unedited suite with the change, run each check listed in meta.json (quick tier) against the changed tree, and
rewrite meta.json.  usage: tools/seeded_recheck.py [name-prefix ...]
"""
import glob
import json
import os
import shutil
import subprocess
import sys
import tempfile

V = os.path.dirname(os.path.dirname(os.path.abspath(__file__)))
PY = '/venv/bin/python'


def sh(cmd):
    return subprocess.run(cmd, shell=True, capture_output=True, text=True)


def main():
    want = sys.argv[1:]
    base = sh('git -C /repo log -1 --format=%h').stdout.strip()
    for metaf in sorted(glob.glob(os.path.join(V, 'seeded', '*', 'meta.json'))):
        d = os.path.dirname(metaf)
        name = os.path.basename(d)
        if want and not any(name.startswith(w) for w in want):
            continue
        m = json.load(open(metaf))
        if m.get('superseded_by'):
            print(name, 'skipped: superseded by fix', ', '.join(m['superseded_by']), '(confirmed against', m['base_commit'] + ')')
            continue
        scratch = tempfile.mkdtemp(prefix='seedre.')
        try:
            sh(f'git -C /repo worktree add -q --detach {scratch} HEAD')
            shutil.copy(os.path.join(d, 'demo.py'), os.path.join(scratch, 'demo_copy.py'))
            clean = sh(f'cd /tmp && PYTHONPATH={scratch} {PY} {scratch}/demo_copy.py')
            ap = sh(f'cd {scratch} && git apply {d}/patch.diff')
            if ap.returncode:
                print(name, 'PATCH DOES NOT APPLY to', base)
                m['confirmed']['ok'] = False
                m['confirmed']['note'] = f'patch.diff no longer applies to /repo {base}'
                json.dump(m, open(metaf, 'w'), indent=1)
                continue
            broken = sh(f'cd /tmp && PYTHONPATH={scratch} {PY} {scratch}/demo_copy.py')
            suite = sh(f'cd {scratch} && {PY} -m pytest -q -p no:cacheprovider -n 8 2>&1 | tail -1').stdout.strip()
            verdicts = {}
            for p in m['checks_run']:
                r = sh(f'VERIF_REPO={scratch} VERIF_NO_EVIDENCE=1 VERIF_BUDGET_S={os.environ.get("SEED_BUDGET", "45")} {PY} {V}/check.py {p} --tier quick')
                lines = [ln for ln in r.stdout.splitlines() if 'VIOLATION' in ln or 'bucket=' in ln or 'HARNESS' in ln]
                verdicts[p] = {'exit': r.returncode, 'lines': [ln[:400] for ln in lines[:4]]}
        finally:
            sh(f'git -C /repo worktree remove --force {scratch}')
            shutil.rmtree(scratch, ignore_errors=True)
        m['base_commit'] = base
        m['confirmed'] = {'demo_exit_on_unchanged_tree': clean.returncode, 'demo_exit_with_change': broken.returncode,
                          'suite_with_change': suite,
                          'ok': clean.returncode == 0 and broken.returncode != 0 and suite.startswith('381 passed')}
        m['checks_run'] = verdicts
        json.dump(m, open(metaf, 'w'), indent=1)
        print(name, 'ok' if m['confirmed']['ok'] else 'NOT CONFIRMED', {p: v['exit'] for p, v in verdicts.items()}, flush=True)


if __name__ == '__main__':
    main()
