"""C20 - diagnostics point at the right place and always terminate."""
from __future__ import annotations

import contextlib
import io
import itertools
import re
import sys
import time
import warnings

import soupsieve as sv

from engine import choose, common, fullgrammar as FG, htmldoc, respell, selast as S, trees
from props import c06

ID = 'C20'
BUDGET = {'quick': 50, 'thorough': 900}
META = {
    'rule': '(a) SelectorSyntaxError(msg, pattern, index) for every pattern over {a, b, space, \\n, \\r\\n, \\r, \\f} up to '
            'length 5 (quick) / 7 (thorough) x every index 0..len (not inside a \\r\\n pair), plus random patterns up to 60 '
            'characters with mixed line breaks; (b) parser-raised errors from mutated multi-line selectors (newline + '
            'indent around tokens, errors forced at the start, middle and very end); (c) compile(p, flags=DEBUG) vs '
            'compile(p) on respelled full-grammar selectors; (d) pretty() of compiled selectors weighted to attribute '
            'patterns with regex flags, negative An+B terms, one-letter fields, nested lists, strings with '
            'quotes/backslashes/parentheses. Oracle: line = 1 + line breaks before the offset, column = offset within '
            'the line + 1, context reproduces the pattern\'s lines with a caret under the column; DEBUG changes no '
            'result; pretty() finishes within a step budget counted by a tracer (no clock) and equals repr up to '
            'whitespace. Non-trivial: (a,b) the pattern has >= 2 lines and the offset is not on line 1; (c,d) the '
            'selector has a regex flag, a negative number or a one-letter keyword in its repr; distinct by input',
    'assumptions': ['line breaks are \\n, \\r\\n and \\r as the statement lists them (form feed is not a line break for '
                    'diagnostics)', 'errors raised while parsing a custom selector definition refer to that definition and are skipped in (b)'],
}

BREAK = re.compile(r'\r\n|\n|\r')
SYMBOLS = ['a', 'b', ' ', '\n', '\r\n', '\r', '\f']


def expected_location(pattern, offset):
    breaks = list(BREAK.finditer(pattern))
    before = [m for m in breaks if m.end() <= offset]
    line = 1 + len(before)
    start = before[-1].end() if before else 0
    col = offset - start + 1
    lines = BREAK.split(pattern)
    return line, col, lines


def check_error(exc, pattern, offset=None):
    """Return None or (bucket, detail). offset None: only internal consistency is checked."""
    line, col, ctx = exc.line, exc.col, exc.context
    lines = BREAK.split(pattern)
    if line is None or col is None or ctx is None:
        return ('error-without-location', f'pattern {pattern!r}: line={line} col={col}')
    if offset is not None:
        eline, ecol, _ = expected_location(pattern, offset)
        if (line, col) != (eline, ecol):
            return ('wrong-line-or-column', f'pattern {pattern!r} offset {offset}: reported line {line} col {col}, '
                    f'expected line {eline} col {ecol}')
    if not 1 <= line <= len(lines):
        return ('line-outside-pattern', f'pattern {pattern!r}: line {line} of {len(lines)}')
    if not 1 <= col <= len(lines[line - 1]) + 1:
        return ('column-outside-line', f'pattern {pattern!r}: line {line} col {col}, line length {len(lines[line - 1])}')
    multi = len(lines) > 1
    exp = []
    for k, text in enumerate(lines, 1):
        exp.append((('--> ' if k == line else '    ') if multi else '') + text)
        if k == line:
            exp.append(' ' * ((4 if multi else 0) + col - 1) + '^')
    got = ctx.split('\n')
    if got != exp:
        return ('context-does-not-reproduce-pattern', f'pattern {pattern!r} offset {offset}: context lines {got!r}, expected {exp!r}')
    if str(exc).count(ctx) != 1 or f'line {line}' not in str(exc):
        return ('message-lacks-context', f'pattern {pattern!r}: {str(exc)!r:.200}')
    return None


def check_direct(pattern, offset):
    try:
        e = sv.SelectorSyntaxError('msg', pattern, offset)
    except Exception as ex:  # noqa: BLE001
        return ('constructor-raises-' + type(ex).__name__, f'pattern {pattern!r} offset {offset}: {ex!r:.150}')
    return check_error(e, pattern, offset)


def valid_offsets(pattern):
    return [i for i in range(len(pattern) + 1) if not (0 < i < len(pattern) and pattern[i - 1] == '\r' and pattern[i] == '\n')]


def run_direct_sweep(col, ctx):
    tier = ctx['tier']
    maxlen = 5 if tier == 'quick' else 7
    k, nsh = ctx['shard'], ctx['nshards']
    idx = 0
    complete = True
    for n in range(0, maxlen + 1):
        for tup in itertools.product(SYMBOLS, repeat=n):
            idx += 1
            if idx % nsh != k:
                continue
            if idx % 4096 == k and time.time() > ctx['t_end']:
                col.extra['budget_exhausted'] = 1
                complete = False
                break
            pattern = ''.join(tup)
            nl = len(BREAK.findall(pattern))
            for off in valid_offsets(pattern):
                out = check_direct(pattern, off)
                col.count()
                if out:
                    col.fail(out[0], {'direct': [pattern, off]}, out[1])
            if nl:
                col.nontrivial_case(['direct', pattern], {'pattern': pattern, 'offsets': len(pattern) + 1} if idx % 50021 == k else None)
        if not complete:
            break
    col.extra['direct_sweep_complete'] = int(complete)


# ------------------------------------------------------------------ (b) parser-raised errors

CFG = FG.Cfg(ns_forms=True, prefixes=('svg',), custom=(), big_nth=True)
POS = re.compile(r'position (\d+)')


def multiline_mutant(ch):
    sl = FG.gen_list(ch, CFG, max_items=3)
    r = respell.Respeller(ch, 'all', 0.5)
    r.ch = ch
    text = r.pattern(sl)
    # make sure there are line breaks + indentation
    brk = ch.pick(['\n', '\r\n', '\r', '\n  ', '\r\n\t'])
    text = text.replace(', ', ',' + brk, 2) if ', ' in text else text + brk
    # one or two mistakes: with two, the one that comes first in the pattern is the one that must be reported
    for _ in range(2 if ch.p(0.4) else 1):
        mode = ch.i(0, 6)
        if mode == 0:
            text = text + ch.pick([' >', ',', ' +', ':is(', ':not(a', '[a', '!', brk + '!', ':nth-child(', ')', ']', '\\'])
        elif mode == 1:
            text = ch.pick(['>', ',', '!', ')', '+ a', '~']) + brk + text
        elif mode == 2:
            pos = ch.i(0, len(text))
            text = text[:pos] + ch.pick(['!', '%', '::', '@', '$', '{', brk + ')', ',,', '> >', '[=]', ':bogus', ':nth-child(x)']) + text[pos:]
        elif mode == 3:
            text = c06.mutate(ch, text)
        elif mode == 4:
            text = text[:ch.i(0, len(text))]
    return text


def check_parser_error(text, main=None):
    """`text` is the pattern to compile - or, when `main` is given, the definition of the custom selector `:--x` that the
    (valid) pattern `main` refers to: the error then belongs to the definition's text and is located in it."""
    sv.purge()
    try:
        with warnings.catch_warnings():
            warnings.simplefilter('ignore')
            if main is None:
                sv.compile(text)
            else:
                sv.compile(main, custom={':--x': text})
    except sv.SelectorSyntaxError as e:
        pattern = text.replace('\x00', '\ufffd')
        m = POS.search(str(e).split('\n')[0])
        off = int(m.group(1)) if m else None
        if e.line is None and e.col is None and e.context is None:
            return 'no-location', None
        if off is not None and off > len(pattern):
            return 'raised', ('offset-beyond-pattern', f'{text!r}: message says position {off}, pattern length {len(pattern)}')
        return 'raised', check_error(e, pattern, off)
    except Exception:  # noqa: BLE001
        return 'other-exception', None
    return 'valid', None


# ------------------------------------------------------------------ (c) DEBUG and (d) pretty

def quiet(fn, *a, **k):
    # what DEBUG prints goes to an ordinary strict UTF-8 text stream (a pipe, a log file), not to a StringIO that would
    # swallow anything
    raw = io.BytesIO()
    buf = io.TextIOWrapper(raw, encoding='utf-8', errors='strict', write_through=True)
    with contextlib.redirect_stdout(buf), warnings.catch_warnings():
        warnings.simplefilter('ignore')
        out = fn(*a, **k)
        buf.flush()
        return out, raw.getvalue().decode('utf-8')


class StepBudget(Exception):
    pass


def run_with_step_budget(fn, budget, filename_part='pretty.py'):
    """Run fn() counting line events in frames of `filename_part`; raise StepBudget when exceeded (no clock involved)."""
    count = [0]

    def tracer(frame, event, arg):
        if event == 'call' and frame.f_code.co_filename.endswith(filename_part):
            def local(frame, event, arg):
                if event == 'line':
                    count[0] += 1
                    if count[0] > budget:
                        raise StepBudget()
                return local
            return local
        return None
    old = sys.gettrace()
    sys.settrace(tracer)
    try:
        return fn(), count[0]
    finally:
        sys.settrace(old)


PRETTY_GUARD_S = 20      # CPU seconds; >= 1000 x the slowest legitimate call on these sizes


def strip_ws(s):
    return re.sub(r'\s+', '', s)


_doc = [None]
NS = {'svg': trees.NS_SVG}
CUSTOM = {':--foo': 'p > a', ':--bar': ':--foo:is(b)'}
DCFG = FG.Cfg(ns_forms=True, prefixes=('svg',), custom=('--foo', '--bar'), big_nth=True)


def witness():
    if _doc[0] is None:
        _doc[0] = trees.materialise(htmldoc.WITNESS_RECIPE)
    return _doc[0]


def check_debug_and_pretty(text, check_pretty=True):
    fails = []
    sv.purge()
    try:
        (plain, _o) = quiet(sv.compile, text, NS, custom=CUSTOM)
        perr = None
    except Exception as e:  # noqa: BLE001
        plain, perr = None, (type(e).__name__, str(e))
    try:
        (dbg, out) = quiet(sv.compile, text, NS, sv.DEBUG, custom=CUSTOM)
        derr = None
    except Exception as e:  # noqa: BLE001
        dbg, derr = None, (type(e).__name__, str(e))
    if perr != derr:
        fails.append(('debug-changes-outcome', f'{text!r}: plain {perr or "compiles"}, DEBUG {derr or "compiles"}'))
        return fails, None
    if plain is None:
        return fails, None
    if plain.selectors != dbg.selectors:
        fails.append(('debug-changes-structure', f'{text!r}'))
    doc = witness()
    if [id(x) for x in plain.select(doc.target)] != [id(x) for x in quiet(dbg.select, doc.target)[0]]:
        fails.append(('debug-changes-selection', f'{text!r}'))
    info = {'repr': ''}
    if check_pretty:
        for obj in (plain.selectors, plain):
            rep = repr(obj)
            info['repr'] = rep
            budget = 400 * (len(rep) + 10)
            try:
                with common.cpu_guard(PRETTY_GUARD_S):
                    (_r, out), steps = run_with_step_budget(lambda o=obj: quiet(o.pretty), budget)
            except StepBudget:
                fails.append(('pretty-does-not-terminate', f'pretty() of {text!r} exceeded {budget} steps (repr length {len(rep)})'))
                break
            except common.CallTimeout:
                # no Python-level steps were being made (the step budget would have fired): the CPU time went into one call
                # of C code, i.e. a regular expression.  CPU seconds of this process, not the wall clock.
                fails.append(('pretty-does-not-terminate', f'pretty() of {text!r} (repr length {len(rep)}) made no further steps and '
                                                           f'burnt {PRETTY_GUARD_S} s of CPU inside one call (a normal call takes milliseconds)'))
                break
            except Exception as e:  # noqa: BLE001
                fails.append(('pretty-raises-' + type(e).__name__, f'{text!r}: {e!r:.150}'))
                break
            if strip_ws(out) != strip_ws(rep):
                a, b = strip_ws(out), strip_ws(rep)
                i = next((j for j in range(min(len(a), len(b))) if a[j] != b[j]), min(len(a), len(b)))
                fails.append(('pretty-differs-from-repr', f'{text!r}: pretty {a[max(0, i - 30):i + 30]!r} vs repr {b[max(0, i - 30):i + 30]!r}'))
                break
    return fails, info


def replay(case):
    if 'direct' in case:
        return check_direct(case['direct'][0], case['direct'][1])
    if 'parse' in case:
        _v, out = check_parser_error(case['parse'], case.get('main'))
        return out
    fails, _ = check_debug_and_pretty(case['text'])
    return fails[0] if fails else None


def shrink(case, still, cap):
    if 'parse' in case:
        r = c06.shrink({'pattern': case['parse'], 'custom': None}, lambda c: still({'parse': c['pattern'], 'main': case.get('main')}), cap)
        return {'parse': r['pattern'], 'main': case.get('main')}
    return case


def shard(ctx):
    col = common.Collector()
    tier = ctx['tier']
    t_rand_end = time.time() + ctx['budget_s'] * 0.6

    def body(ch):
        mode = ch.weighted([(2, 'direct'), (4, 'parse'), (4, 'debug-pretty')])
        if mode == 'direct':
            n = ch.i(0, 60)
            pattern = ''.join(ch.pick(SYMBOLS + ['>', ',', ':is(', ')', '"', 'é', '\x00']) for _ in range(n))
            offs = valid_offsets(pattern)
            for off in {offs[0], offs[-1], ch.pick(offs), ch.pick(offs)}:
                out = check_direct(pattern, off)
                col.count()
                if out:
                    col.fail(out[0], {'direct': [pattern, off]}, out[1])
            if BREAK.search(pattern):
                col.nontrivial_case(['direct', pattern], {'pattern': pattern})
            col.classify('direct-random')
        elif mode == 'parse':
            text = multiline_mutant(ch)
            main = None
            if ch.p(0.15):
                # the faulty text is the definition of a custom selector used by a valid pattern (a nested parse)
                main = ch.pick(('article > section.content :--x', ':--x', 'p:--x, a', ':is(div, :--x) > b', 'a\n,\nb :--x'))
                if ch.p(0.5):
                    text = ch.pick(('> p', '', ' ', ', a', '+ b', '/* c */', '\n> p', 'p >\n> em', '~', ' \r\n '))
                col.classify('parse:custom-definition')
            verdict, out = check_parser_error(text, main)
            col.count()
            col.classify('parse:' + verdict)
            if verdict == 'raised':
                lines = BREAK.split(text)
                if len(lines) > 1:
                    col.nontrivial_case(['parse', text], {'pattern': text[:200], 'lines': len(lines)})
            if out:
                col.fail(out[0], {'parse': text, 'main': main}, out[1])
            if verdict != 'valid' and main is None:
                # DEBUG changes no result: the same exception, message and location with and without the flag
                fails, _info = check_debug_and_pretty(text, check_pretty=False)
                col.count()
                col.classify('debug-on-invalid')
                for b, d in fails[:1]:
                    col.fail(b, {'text': text}, d)
        else:
            sl = FG.gen_list(ch, DCFG, max_items=2)
            text = respell.Respeller(ch, 'all', 0.2).pattern(sl) if ch.p(0.5) else S.render_list(sl)
            if ch.p(0.25):
                # values long enough that their compiled pattern no longer fits the 200 characters re.Pattern.__repr__
                # shows (the repr then holds an unbalanced quote), alone and in every position relative to other tokens
                n_ = ch.pick((150, 190, 197, 198, 230, 400))
                unit = ch.pick(('a', 'a', 'ab ', "x'", 'q\\"', '.+'))
                long_value = (unit * n_)[:n_]
                long_attr = '[data-x' + ch.pick(('=', '~=', '*=', '^=')) + S.cssstring(long_value) + ch.pick(('', ' i')) + ']'
                where_ = ch.i(0, 5)
                if where_ == 0:
                    text = long_attr
                elif where_ == 1:
                    text = long_attr + ', ' + text
                elif where_ == 2:
                    text = text + ', ' + long_attr
                elif where_ == 3:
                    text = long_attr + ch.pick((' ', ' > ', ' ~ ')) + text
                elif where_ == 4:
                    text = text + ch.pick((' ', ' > ', ' + ')) + long_attr
                else:
                    text = ':is(' + long_attr + ', p):not(' + long_attr + ')'
                col.classify('long-attribute-value')
            if ch.p(0.08):
                # an unpaired surrogate in a name (it is an ordinary non-ASCII identifier character to the grammar)
                text += ch.pick((', .a\ud800', ' > p.\udc00x', ', [class="a\ud800"]'))
                col.classify('lone-surrogate-token')
            fails, info = check_debug_and_pretty(text)
            col.count(3)
            col.classify('debug-pretty')
            if info and (re.search(r're\.[A-Z]|-\d|\b[abn]=', info['repr'])):
                col.nontrivial_case(['dp', text], {'selector': text[:200]})
            for b, d in fails[:2]:
                col.fail(b, {'text': text}, d)

    ex = common.hyp_run(choose.choices(4096), body, 20000 if tier == 'quick' else 2000000, ctx['hseed'],
                        deadline_ts=t_rand_end)
    col.extra['random_budget_exhausted'] = int(ex)
    run_direct_sweep(col, ctx)
    return col


def evidence_extra(merged):
    return {'exhaustive': merged['extra'].get('direct_sweep_complete', 0) == len(merged.get('shard_wall', []))}
