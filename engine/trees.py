"""E1 - tree recipes (plain JSON data), materialisers, and Hypothesis strategies for recipes.

recipe := {"kind": KIND, "top": [node...], "detach": [child index path] | None}
node   := {"k":"e","name":str,"ns":str|None,"prefix":str|None,"attrs":[[ns|None,prefix|None,local,value]],"ch":[node]}
        | {"k":"t"|"c"|"cd"|"pi"|"dt"|"decl","s":str}
value  := str | [str...]   (list = multi-valued attribute as parsers store `class`)

Oracles are always evaluated on the resulting bs4 tree, never on the recipe.
"""
from __future__ import annotations

import soupsieve  # noqa: F401  (before bs4)
import bs4
from bs4 import BeautifulSoup, CData, Comment, Declaration, Doctype, NavigableString, ProcessingInstruction
from bs4.element import NamespacedAttribute

API_KINDS = ('html-api', 'xml-api')
HTML_PARSERS = ('html.parser', 'lxml', 'html5lib')
PARSER_KINDS = HTML_PARSERS + ('lxml-xml',)
ALL_KINDS = API_KINDS + PARSER_KINDS

NS_XHTML = 'http://www.w3.org/1999/xhtml'
NS_SVG = 'http://www.w3.org/2000/svg'
NS_MATHML = 'http://www.w3.org/1998/Math/MathML'
NS_XLINK = 'http://www.w3.org/1999/xlink'
NS_XML = 'http://www.w3.org/XML/1998/namespace'

_STR_CLASSES = {'t': NavigableString, 'c': Comment, 'cd': CData, 'pi': ProcessingInstruction, 'dt': Doctype,
                'decl': Declaration}


def E(name, attrs=None, ch=None, ns=None, prefix=None):
    """Convenience constructor for hand-written recipes. attrs: dict or list of 4-lists."""
    if isinstance(attrs, dict):
        attrs = [[None, None, k, v] for k, v in attrs.items()]
    return {'k': 'e', 'name': name, 'ns': ns, 'prefix': prefix, 'attrs': attrs or [], 'ch': ch or []}


def T(s):
    return {'k': 't', 's': s}


def C(s):
    return {'k': 'c', 's': s}


# ------------------------------------------------------------------ API materialiser

def _attr_key(ns, prefix, local):
    if ns is None and prefix is None:
        return local
    return NamespacedAttribute(prefix, local, ns)


def _build_api(soup, parent, node):
    k = node['k']
    if k == 'e':
        attrs = {}
        for ns, prefix, local, value in node.get('attrs', []):
            attrs[_attr_key(ns, prefix, local)] = list(value) if isinstance(value, list) else value
        tag = soup.new_tag(node['name'], namespace=node.get('ns'), nsprefix=node.get('prefix'), attrs=attrs)
        parent.append(tag)
        for c in node.get('ch', []):
            _build_api(soup, tag, c)
    else:
        parent.append(_STR_CLASSES[k](node['s']))


# ------------------------------------------------------------------ serialiser (markup is a pure function of recipe)

def _esc_text(s):
    return s.replace('&', '&amp;').replace('<', '&lt;').replace('>', '&gt;')


def _esc_attr(s):
    return s.replace('&', '&amp;').replace('<', '&lt;').replace('"', '&quot;')


VOID = {'area', 'base', 'br', 'col', 'embed', 'hr', 'img', 'input', 'link', 'meta', 'source', 'track', 'wbr'}


def serialise(node, xml=False, inherited_default=None):
    k = node['k']
    if k == 't':
        return _esc_text(node['s'])
    if k == 'c':
        return '<!--' + node['s'].replace('--', '- -').rstrip('-') + '-->'
    if k == 'cd':
        return '<![CDATA[' + node['s'].replace(']]>', ']] >') + ']]>'
    if k == 'pi':
        return '<?' + node['s'].replace('?>', '? >') + '?>'
    if k == 'dt':
        return '<!DOCTYPE ' + node['s'].replace('>', '') + '>'
    if k == 'decl':
        return '<!' + node['s'].replace('>', '') + '>'
    name = node['name']
    ns, prefix = node.get('ns'), node.get('prefix')
    decls = []
    qname = name
    default = inherited_default
    if xml:
        if prefix:
            qname = f'{prefix}:{name}'
            if ns is not None:
                decls.append(f'xmlns:{prefix}="{_esc_attr(ns)}"')
        elif ns is not None:
            if ns != inherited_default:
                decls.append(f'xmlns="{_esc_attr(ns)}"')
                default = ns
        elif inherited_default:
            decls.append('xmlns=""')
            default = None
    parts = [qname] + decls
    seen_pfx = {prefix} if prefix else set()
    for ans, apfx, local, value in node.get('attrs', []):
        v = ' '.join(value) if isinstance(value, list) else value
        aname = local
        if xml and ans is not None and apfx:
            aname = f'{apfx}:{local}'
            if apfx not in seen_pfx and apfx != 'xml':
                parts.append(f'xmlns:{apfx}="{_esc_attr(ans)}"')
                seen_pfx.add(apfx)
        elif apfx:
            aname = f'{apfx}:{local}'
        parts.append(f'{aname}="{_esc_attr(v)}"')
    inner = ''.join(serialise(c, xml, default) for c in node.get('ch', []))
    if not xml and name.lower() in VOID and not inner:
        return '<' + ' '.join(parts) + '>'
    if xml and not inner:
        return '<' + ' '.join(parts) + '/>'
    return '<' + ' '.join(parts) + '>' + inner + f'</{qname}>'


def markup(recipe):
    xml = recipe['kind'] == 'lxml-xml'
    return ''.join(serialise(n, xml) for n in recipe['top'])


# ------------------------------------------------------------------ materialise

class Doc:
    """A materialised recipe: `.soup` (BeautifulSoup object), `.target` (soup or detached element)."""

    def __init__(self, soup, target, kind):
        self.soup = soup
        self.target = target
        self.kind = kind

    def elements(self, under=None):
        """Element descendants of `under` (default: the call target) in document order."""
        base = self.target if under is None else under
        return [n for n in base.descendants if isinstance(n, bs4.Tag)]

    def all_elements(self):
        """All elements reachable from the top-most object (including a detached target itself)."""
        top = self.top()
        out = [top] if not isinstance(top, BeautifulSoup) else []
        out.extend(n for n in top.descendants if isinstance(n, bs4.Tag))
        return out

    def top(self):
        t = self.target
        while t.parent is not None:
            t = t.parent
        return t


def materialise(recipe):
    kind = recipe['kind']
    if kind in API_KINDS:
        soup = BeautifulSoup('', 'html.parser' if kind == 'html-api' else 'xml')
        for n in recipe['top']:
            _build_api(soup, soup, n)
    else:
        parser = 'xml' if kind == 'lxml-xml' else kind
        soup = BeautifulSoup(markup(recipe), parser)
    target = soup
    path = recipe.get('detach')
    if path:
        node = soup
        ok = True
        for i in path:
            tags = [c for c in node.contents if isinstance(c, bs4.Tag)]
            if not tags:
                ok = False
                break
            node = tags[i % len(tags)]
        if ok and node is not soup:
            target = node.extract()
    return Doc(soup, target, kind)


# ------------------------------------------------------------------ generators (pure functions of a Chooser)

WS_TEXTS = ['', ' ', '\n', ' \t\r\n\f', '\n  ']
# the last five are white space to Python's \s / str.isspace() but not to CSS: they count as content
WORD_TEXTS = ['x', 'x y', 'abc', ' a ', 'a\nb', '\xa0', '\u2003', '\x0b', ' \x1f\n', '\u3000\n']


def string_node(ch, kinds=('t', 'c'), texts=None):
    k = ch.pick(kinds)
    pool = texts or (WS_TEXTS + WORD_TEXTS)
    s = ch.pick(pool)
    if k == 'dt':
        s = 'html'
    if k in ('c', 'cd', 'pi', 'decl') and not s.strip():
        s = ch.pick(['c', 'x y', 'abc'])
    return {'k': k, 's': s}


def attr_value(ch, values, extra_text=True):
    base = ch.pick(values)
    r = ch.i(0, 19)
    if r == 0:
        return base + '\n'
    if r == 1:
        return ' ' + base
    if r == 2:
        return base + ' ' + ch.pick(values)
    if r == 3:
        return base + '-' + ch.pick(values)
    if r == 4:
        return base.upper()
    if r == 5:
        return ''
    if r == 6 and extra_text:
        return ch.text(6, exclude='\x00\r')
    if r == 7:
        return ch.pick(('x\n', '\n', 'a b\n\n')) + base          # a line break *before* the part a selector matches
    if r == 8:
        return base + '\n' + ch.pick(values)
    return base


def gen_recipe(
    ch,
    kinds=ALL_KINDS,
    names=('a', 'b', 'p', 'div', 'span'),
    attr_names=('title', 'data-x', 'href'),
    attr_values=('abc', 'a', 'b c', 'x-y', 'Abc'),
    ids=('i1', 'i2', 'i3'),
    classes=('k', 'm', 'K'),
    max_elems=10,
    string_kinds=('t', 't', 't', 'c'),
    texts=None,
    max_top=2,
    wrap_html=0.5,
    allow_detach=True,
    ns_choices=(None,),
    extra_text_values=True,
    upper_names=True,
    prefix_choices=(None,),
):
    """Random recursive tree with `n` elements, strings interleaved by explicit choices (construction, no rejection)."""
    kind = ch.pick(kinds)
    n = ch.i(1, max_elems)
    api = kind in API_KINDS
    xml = kind in ('xml-api', 'lxml-xml')

    def mk_elem():
        name = ch.pick(names)
        if upper_names and kind == 'html-api' and ch.i(0, 9) == 0:
            name = name.upper()
        attrs = []
        used = set()
        if ch.i(0, 2) == 0:
            attrs.append([None, None, 'id', ch.pick(ids)])
            used.add('id')
        if ch.i(0, 2) == 0:
            cl = [ch.pick(classes) for _ in range(ch.i(0, 3))]
            attrs.append([None, None, 'class', ' '.join(cl) if xml else cl])
            used.add('class')
        for _ in range(ch.i(0, 2) + (1 if xml and ch.i(0, 3) == 0 else 0)):
            an = ch.pick(attr_names)
            if xml and ch.i(0, 3) == 0:
                # XML names are case-sensitive: `title`, `Title` and `TITLE` are three attributes and may sit on one element
                an = ch.pick((an.upper(), an.capitalize()))
            key = an if xml else an.lower()
            if key in used:
                continue
            used.add(key)
            attrs.append([None, None, an, attr_value(ch, attr_values, extra_text_values and api)])
        ns = ch.pick(ns_choices)
        prefix = ch.pick(prefix_choices) if ns else None
        return {'k': 'e', 'name': name, 'ns': ns, 'prefix': prefix, 'attrs': attrs, 'ch': []}

    elems = [mk_elem() for _ in range(n)]
    ntop = 1
    if (api or not xml) and max_top > 1 and ch.i(0, 5) == 0:
        ntop = min(n, ch.i(2, max_top))
    top = elems[:ntop]
    for i in range(ntop, n):
        elems[ch.i(0, i - 1)]['ch'].append(elems[i])

    def sprinkle(children, is_top):
        gap_mode = ch.i(0, 3)  # 0: none, 1: whitespace everywhere, 2/3: random
        out = []
        for pos in range(len(children) + 1):
            if gap_mode == 1:
                out.append({'k': 't', 's': ch.pick(['\n', ' ', '\n  '])})
            elif gap_mode >= 2:
                for _ in range(ch.i(0, 2)):
                    sn = string_node(ch, string_kinds, texts)
                    if is_top and kind == 'lxml-xml' and sn['k'] in ('t', 'cd'):
                        continue
                    out.append(sn)
            if pos < len(children):
                out.append(children[pos])
        return out

    for e in elems:
        e['ch'] = sprinkle(e['ch'], False)
    if api:
        top = sprinkle(top, True)
    if not api and kind in HTML_PARSERS and ch.p(wrap_html):
        top = [{'k': 'e', 'name': 'html', 'ns': None, 'prefix': None, 'attrs': [], 'ch': [
            {'k': 'e', 'name': 'body', 'ns': None, 'prefix': None, 'attrs': [], 'ch': top}]}]
    if kind == 'lxml-xml' and len(top) != 1:
        top = [{'k': 'e', 'name': 'root', 'ns': None, 'prefix': None, 'attrs': [], 'ch': top}]
    detach = None
    if allow_detach and ch.i(0, 7) == 0:
        detach = [ch.i(0, 3) for _ in range(ch.i(1, 3))]
    return {'kind': kind, 'top': top, 'detach': detach}
